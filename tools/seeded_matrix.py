#!/usr/bin/env python3
"""Runs quick checks against every seeded change (scratch copy of /repo + patch) and records which checks catch it.
usage: tools/seeded_matrix.py [seeded ids...] [--checks C01,C02] [--tier quick]"""
import json, os, shutil, subprocess, sys, tempfile
VERIF = "/verif"
args = [a for a in sys.argv[1:] if not a.startswith("--")]
opts = dict(a[2:].split("=", 1) for a in sys.argv[1:] if a.startswith("--") and "=" in a)
tier = opts.get("tier", "quick")
ids = args or sorted(os.listdir(os.path.join(VERIF, "seeded")))
registered = [c["property_id"] for c in json.load(open(os.path.join(VERIF, "MANIFEST.json")))["checks"]]
for sid in ids:
    d = os.path.join(VERIF, "seeded", sid)
    meta = json.load(open(os.path.join(d, "meta.json")))
    prop = meta["breaks_property"]
    checks = [prop] if opts.get("checks") == "own" else opts["checks"].split(",") if "checks" in opts else [c for c in dict.fromkeys([prop, "C01", "C08", "C16"]) if c in registered]
    work = tempfile.mkdtemp(prefix="mut.")
    try:
        os.makedirs(work + "/repo")
        shutil.copytree("/repo/efootprint", work + "/repo/efootprint")
        r = subprocess.run(["patch", "-p1", "-s", "-d", work + "/repo", "-i", os.path.join(d, "patch.diff")], capture_output=True, text=True)
        if r.returncode != 0:
            print(sid, "PATCH DOES NOT APPLY", r.stdout[:200]); continue
        results = meta.get("check_results", {})
        for cid in checks:
            env = dict(os.environ, VERIF_REPO=work + "/repo", VERIF_OUT=work + "/out")
            r = subprocess.run(["./check", cid, "--tier", tier], cwd=VERIF, env=env, capture_output=True, text=True)
            lines = [l for l in r.stdout.splitlines() if l.startswith("VIOLATION")]
            first = next((l.strip()[:220] for l in r.stdout.splitlines() if l.startswith("  ") and " x" in l[:40]), "")
            results[cid] = {"tier": tier, "exit": r.returncode, "violation_lines": len(lines), "first": first}
            print("%-8s %-4s rc=%d viol=%d %s" % (sid, cid, r.returncode, len(lines), first[:150]), flush=True)
        meta["check_results"] = results
        meta["caught_by"] = sorted(c for c, v in results.items() if v["exit"] == 1 and v["violation_lines"] > 0)
        json.dump(meta, open(os.path.join(d, "meta.json"), "w"), indent=1)
    finally:
        shutil.rmtree(work, ignore_errors=True)
