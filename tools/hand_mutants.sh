#!/bin/bash
# Deliberate breakages of DESIGN.md section 6 (each compiles and keeps the pinned tests passing): which check catches it.
cd /verif
run() { echo "#### $1"; shift; VERIF_OUT=$(mktemp -d /tmp/hm.XXXX) tools/try_sed.sh "$@"; }
run "server no longer recomputes its storage (C01)" efootprint/core/hardware/server_base.py '        return [self.storage]' '        return []' C01
run "children not deregistered on detach (C05/C08)" efootprint/abstract_modeling_classes/explainable_object_base_class.py '                direct_ancestor_with_id.remove_child_from_direct_children_with_id(direct_child=self)' '                pass' C05 C08
run "job delay ceil instead of floor (C03)" efootprint/abstract_modeling_classes/explainable_objects.py '        shift_duration_in_hours = math.floor(' '        shift_duration_in_hours = math.ceil(' C03
run "autoscaling without ceil (C04)" efootprint/core/hardware/server_base.py '        hour_by_hour_nb_of_instances = self.raw_nb_of_instances.ceil()' '        hour_by_hour_nb_of_instances = self.raw_nb_of_instances.copy()' C04
run "reset_values restores in reversed pairing (C05)" efootprint/abstract_modeling_classes/modeling_update.py '            for new_value, previous_value in zip(
                    self.all_new_obj_linked_to_mod_obj, self.all_previous_obj_linked_to_mod_obj):
                new_value.replace_in_mod_obj_container_without_recomputation(previous_value)
            self.updated_values_set = False' '            for new_value, previous_value in zip(
                    self.all_new_obj_linked_to_mod_obj, reversed(self.all_previous_obj_linked_to_mod_obj)):
                new_value.replace_in_mod_obj_container_without_recomputation(previous_value)
            self.updated_values_set = False' C05
run "simulation filter > instead of >= (C06)" efootprint/abstract_modeling_classes/modeling_update.py 'hourly_quantities.value[filtering_index >= self.simulation_date]' 'hourly_quantities.value[filtering_index > self.simulation_date]' C06
run "duplicated UTC hours: keep first instead of sum (C11)" efootprint/abstract_modeling_classes/explainable_objects.py 'fused_duplicates = duplicates_df.groupby(duplicates_df.index).sum()' 'fused_duplicates = duplicates_df.groupby(duplicates_df.index).first()' C11
run "PUE not applied to active storage energy (C12)" efootprint/core/hardware/storage.py '            1 * u.hour, "one hour") * self.power_usage_effectiveness
        ).set_label(f"Hourly active instances energy for {self.name}")' '            1 * u.hour, "one hour")
        ).set_label(f"Hourly active instances energy for {self.name}")' C12 C02
run "to_json drops the source of quantities (C13)" efootprint/abstract_modeling_classes/explainable_objects.py '            "label": self.label, "value": float(self.value.magnitude), "unit": str(self.value.units)}

        if self.source is not None:' '            "label": self.label, "value": float(self.value.magnitude), "unit": str(self.value.units)}

        if False:' C13
run "negative values accepted (C14)" efootprint/abstract_modeling_classes/modeling_object.py '                if input_value.magnitude < 0 and name not in self.attributes_that_can_have_negative_values():' '                if False:' C14
run "a list operation no longer detaches the list it replaces before the update (C16)" efootprint/abstract_modeling_classes/list_linked_to_modeling_obj.py '        self.set_modeling_obj_container(None, None)
        try:
            ModelingUpdate([[previous_list, updated_list]])' '        try:
            ModelingUpdate([[previous_list, updated_list]])' C16 C01
run "bitrate without refresh rate (C17)" efootprint/builders/services/video_streaming.py 'self.dynamic_bitrate = (pixel_count * self.service.bits_per_pixel * self.refresh_rate' 'self.dynamic_bitrate = (pixel_count * self.service.bits_per_pixel * self.refresh_rate / self.refresh_rate * self.refresh_rate.__class__(30 * self.refresh_rate.value.units, "x")' C17
run "network sums usage patterns in id order and stops at the first empty one (C19)" efootprint/core/hardware/network.py '        for up in self.usage_patterns:
            up_network_consumption' '        for up in sorted(self.usage_patterns, key=lambda x: x.id)[:max(1, len(self.usage_patterns) - (1 if len(self.usage_patterns) > 2 else 0))]:
            up_network_consumption' C19 C02
run "weekly frequency uses day of month (C20)" efootprint/builders/time_builders.py '            if day_of_week in active_days and hour_of_day in hours:' '            if day_of_month in active_days and hour_of_day in hours:' C20
run "explanation records + for a difference (C07)" efootprint/abstract_modeling_classes/explainable_objects.py 'return ExplainableQuantity(self.value - other.value, "", self, other, "-")' 'return ExplainableQuantity(self.value - other.value, "", self, other, "+")' C07
run "scalar quantities added without unit conversion (C09)" efootprint/abstract_modeling_classes/explainable_objects.py '            return ExplainableQuantity(self.value + other.value, "", self, other, "+")' '            return ExplainableQuantity((self.value.magnitude + other.value.magnitude) * self.value.units, "", self, other, "+")' C09 C10
run "storage duration read as a bare magnitude (C10)" efootprint/core/hardware/storage.py 'remove_floating_point_noise_around_integers(self.data_storage_duration.to(u.hour).magnitude))' 'remove_floating_point_noise_around_integers(self.data_storage_duration.magnitude * (8766 if "year" in str(self.data_storage_duration.value.units) else 1)))' C10
run "failing update restores inputs but not recomputed values (C15)" efootprint/abstract_modeling_classes/modeling_update.py '            if (current_value is not previous_value and isinstance(current_value, ObjectLinkedToModelingObj)
                    and current_value.modeling_obj_container is not None):' '            if False:' C15 C05
run "recompute leaves occupied RAM out of the second pass (C18)" efootprint/core/hardware/server_base.py '        return ["hour_by_hour_ram_need", "hour_by_hour_compute_need",
                "occupied_ram_per_instance", "occupied_compute_per_instance",
                "available_ram_per_instance", "available_compute_per_instance",' '        return ["hour_by_hour_ram_need", "hour_by_hour_compute_need",
                "available_ram_per_instance", "available_compute_per_instance",
                "occupied_ram_per_instance", "occupied_compute_per_instance",' C18
