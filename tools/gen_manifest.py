"""Writes MANIFEST.json from the property modules that exist (kept valid at all times)."""
import json, os, sys, importlib
sys.path.insert(0, "/verif")
os.environ.setdefault("PYTHONHASHSEED", "0")
ALL = ["C%02d" % i for i in range(1, 21)]
NA = {}   # property id -> reason (only for properties not claimed)
na_file = "/verif/tools/not_applicable.json"
if os.path.exists(na_file):
    NA = json.load(open(na_file))
checks = []
claimed = []
for pid in ALL:
    path = "/verif/pbt/props/%s.py" % pid.lower()
    if not os.path.exists(path) or pid in NA:
        continue
    src = open(path).read()
    mod_meta = {}
    # read static metadata without importing efootprint
    import ast
    tree = ast.parse(src)
    for node in tree.body:
        if isinstance(node, ast.Assign) and len(node.targets) == 1 and isinstance(node.targets[0], ast.Name):
            n = node.targets[0].id
            if n in ("LEVEL_TEXT", "LEVEL_NOTE", "TECHNIQUE", "DESIGN_REF"):
                mod_meta[n] = ast.literal_eval(node.value)
    claimed.append(pid)
    checks.append({
        "property_id": pid,
        "quick_cmd": "./check %s --tier quick" % pid,
        "thorough_cmd": "./check %s --tier thorough" % pid,
        "evidence_file": "/verif/evidence/%s.json" % pid,
        "replay_cmd_template": "./check %s --replay {path}" % pid,
        "engine": "pbt",
        "level_claimed": {"category": "exploration", "text": mod_meta.get("LEVEL_TEXT", "generated-input search against an explicit oracle"),
                          "design_ref": mod_meta.get("DESIGN_REF", "DESIGN.md section 4, " + pid)},
        "level_note": mod_meta.get("LEVEL_NOTE", "trusts the harness' reference model, pint/pandas arithmetic and the spec builder"),
        "technique": mod_meta.get("TECHNIQUE", "property-based testing (Hypothesis) with a differential oracle"),
    })
manifest = {
    "version": 1,
    "setup_cmd": "./setup.sh",
    "hooks": {"guard": "BOAVIZTA_E_FOOTPRINT_VERIF", "enable": "env BOAVIZTA_E_FOOTPRINT_VERIF=1 (set by ./check; no repository hook is needed: all observation points are public attributes)",
              "baseline_off_cmd": "/verif/tools/baseline.sh", "source_commits": [], "add_only": True},
    "engines": [{"name": "pbt", "path": "/verif/pbt", "serves_properties": claimed,
                 "kind_free_text": "Hypothesis 6.168 property-based testing: generated systems and edit histories, sharded over 16 processes, reference-model / differential / metamorphic oracles, own ddmin minimiser, replay files"}],
    "checks": checks,
    "notes": "See DESIGN.md. Known genuine defects are listed in known_findings.jsonl (status known/fixed).",
    "not_applicable": [{"property_id": p, "reason": NA.get(p, "check not built yet in this round (work in progress)")} for p in ALL if p not in claimed],
}
json.dump(manifest, open("/verif/MANIFEST.json", "w"), indent=1)
print("claimed:", claimed)
