#!/bin/bash
# Runs the repository's pinned test suite with the verification guard OFF and compares with /root/.vp/BASELINE.json
unset BOAVIZTA_E_FOOTPRINT_VERIF
OUT=$(mktemp -d)
cd ${REPO_DIR:-/repo} && /venv/bin/python -m pytest -ra -q -p no:cacheprovider --timeout=900 --continue-on-collection-errors \
  --junitxml=$OUT/junit.xml > $OUT/log.txt 2>&1
/venv/bin/python - "$OUT/junit.xml" <<'PY'
import json, sys, xml.etree.ElementTree as ET
base = json.load(open("/root/.vp/BASELINE.json"))
want = set(base["stable_pass"])
passed = set()
for tc in ET.parse(sys.argv[1]).getroot().iter("testcase"):
    if not any(ch.tag in ("failure", "error", "skipped") for ch in tc):
        passed.add("%s::%s" % (tc.get("classname"), tc.get("name")))
missing = sorted(want - passed)
print("baseline: %d expected, %d of them pass, %d missing" % (len(want), len(want & passed), len(missing)))
for m in missing[:20]:
    print("  NOT PASSING:", m)
sys.exit(1 if missing else 0)
PY
RC=$?
rm -rf "$OUT"
exit $RC
