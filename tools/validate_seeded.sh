#!/bin/bash
# tools/validate_seeded.sh <mutation dir (patch.diff, demo.py, notes.md)> <seeded id> <property> -- confirms a seeded change
# in a scratch worktree of /repo (HEAD): demo passes clean, fails mutated, pinned tests still pass; then stores it.
set -u
SRC=$(realpath "$1"); NAME=$2; PROP=$3
WT=$(mktemp -d /tmp/seedwt.XXXXXX); rmdir $WT
git -C /repo worktree add -q --detach $WT HEAD || exit 3
res() { echo "$1"; }
cd $WT
PYTHONPATH=$WT timeout 600 /venv/bin/python $SRC/demo.py > $WT/.clean.out 2>&1; RC_CLEAN=$?
if ! git apply $SRC/patch.diff 2> $WT/.apply.err; then
  echo "patch does not apply on current HEAD: $(head -3 $WT/.apply.err)"; APPLY=no
else APPLY=yes; fi
if [ $APPLY = yes ]; then
  PYTHONPATH=$WT timeout 600 /venv/bin/python $SRC/demo.py > $WT/.mut.out 2>&1; RC_MUT=$?
  REPO_DIR=$WT /verif/tools/baseline.sh > $WT/.base.out 2>&1; RC_BASE=$?
else RC_MUT=-1; RC_BASE=-1; fi
echo "$NAME: demo clean rc=$RC_CLEAN, demo mutated rc=$RC_MUT, baseline rc=$RC_BASE ($(tail -1 $WT/.base.out 2>/dev/null | head -c 100))"
OK=no
if [ $RC_CLEAN = 0 ] && [ $RC_MUT != 0 ] && [ $RC_MUT != -1 ] && [ $RC_BASE = 0 ]; then
  OK=yes
  mkdir -p /verif/seeded/$NAME
  cp $SRC/patch.diff $SRC/demo.py /verif/seeded/$NAME/
  [ -f $SRC/notes.md ] && cp $SRC/notes.md /verif/seeded/$NAME/notes.md
  python3 - "$NAME" "$PROP" "$(git -C /repo log --format=%h -1)" "$(tail -3 $WT/.mut.out | tr '\n' ' ' | head -c 400)" <<'PY'
import json, sys, os
name, prop, head, mut_out = sys.argv[1:5]
p = "/verif/seeded/%s/meta.json" % name
meta = json.load(open(p)) if os.path.exists(p) else {}
meta.update({"id": name, "breaks_property": prop, "validated_against_repo_head": head,
             "validation": {"demo_on_clean_tree": "exit 0", "demo_on_mutated_tree": "exit != 0: " + mut_out,
                            "pinned_tests_on_mutated_tree": "all 284 stable tests still pass (tools/baseline.sh)"},
             "ran": "tools/validate_seeded.sh (scratch worktree of /repo HEAD, removed afterwards)"})
meta.setdefault("needs_to_manifest", "see notes.md")
meta.setdefault("caught_by", [])
json.dump(meta, open(p, "w"), indent=1)
PY
fi
echo "  kept=$OK"
cd /; git -C /repo worktree remove --force $WT
