#!/bin/bash
# tools/try_mutation.sh <patch.diff> <ID> [<ID>...]  — runs quick checks against a scratch copy of /repo with the patch
set -u
PATCH=$(realpath "$1"); shift
D=$(mktemp -d /tmp/mut.XXXXXX)
mkdir -p $D/repo && cp -r /repo/efootprint $D/repo/efootprint
if ! patch -p1 -s -d $D/repo < "$PATCH"; then echo "PATCH DOES NOT APPLY"; rm -rf $D; exit 3; fi
cd /verif
for id in "$@"; do
  out=$(env VERIF_REPO=$D/repo ${TIER_ENV:-} ./check $id --tier ${TIER:-quick} 2>&1)
  rc=$?
  echo "== $id rc=$rc: $(echo "$out" | grep -c '^VIOLATION') violation line(s)"
  echo "$out" | grep -v "^  File\|^    \|^Traceback" | cut -c1-400 | tail -${LINES_SHOWN:-4}
done
rm -rf $D
