#!/usr/bin/env python3
"""After a history rewrite in /repo: put the current short hashes back into known_findings.jsonl (matched by subject)."""
import json, subprocess
log = subprocess.run(["git", "-C", "/repo", "log", "--format=%h\t%s"], capture_output=True, text=True).stdout.strip().split("\n")
by_hash = {l.split("\t")[0]: l.split("\t")[1] for l in log}
rows = [json.loads(l) for l in open("/verif/known_findings.jsonl")]
subjects_file = "/verif/tools/fix_subjects.json"
try:
    subj = json.load(open(subjects_file))
except FileNotFoundError:
    subj = {}
for r in rows:
    if r.get("status") != "fixed":
        continue
    if r["commit"] in by_hash:
        subj[r["id"]] = by_hash[r["commit"]]
    elif r["id"] in subj:
        h = [k for k, v in by_hash.items() if v == subj[r["id"]]]
        assert len(h) == 1, (r["id"], h)
        r["line"] = r["line"].replace(r["commit"], h[0])
        r["commit"] = h[0]
    else:
        print("cannot resolve", r["id"], r["commit"])
json.dump(subj, open(subjects_file, "w"), indent=1)
open("/verif/known_findings.jsonl", "w").write("\n".join(json.dumps(r) for r in rows) + "\n")
print("ok", len(rows))
