#!/bin/bash
# tools/try_sed.sh <file relative to repo> <python-replace-old> <python-replace-new> <ID>...  — hand-made mutant in a scratch copy
F=$1; OLD=$2; NEW=$3; shift 3
D=$(mktemp -d /tmp/mut.XXXXXX); mkdir -p $D/repo && cp -r /repo/efootprint $D/repo/efootprint
python3 - "$D/repo/$F" "$OLD" "$NEW" <<'PY'
import sys
p, old, new = sys.argv[1:4]
s = open(p).read()
assert old in s, "pattern not found"
open(p, "w").write(s.replace(old, new, 1))
PY
[ $? = 0 ] || { rm -rf $D; exit 3; }
cd /verif
for id in "$@"; do
  out=$(VERIF_REPO=$D/repo ./check $id --tier ${TIER:-quick} 2>&1); rc=$?
  echo "== $id rc=$rc: $(echo "$out" | grep -c '^VIOLATION') violation line(s)"
  echo "$out" | grep -v "^  File\|^    \|^Traceback" | cut -c1-300 | tail -${LINES_SHOWN:-3}
done
rm -rf $D
