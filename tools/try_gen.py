import sys, time, traceback, collections
sys.path.insert(0, "/verif")
from pbt.common import env, spec as S, gen as G, snap, edits as E
from hypothesis import given, settings, seed, HealthCheck, Phase, strategies as st
stats = collections.Counter()
errs = collections.Counter()
t0 = time.time()
@seed(int(sys.argv[1]) if len(sys.argv) > 1 else 1)
@settings(max_examples=int(sys.argv[2]) if len(sys.argv) > 2 else 60, database=None, deadline=None, phases=[Phase.generate], suppress_health_check=list(HealthCheck))
@given(st.data())
def t(data):
    sp = data.draw(G.specs())
    stats["n"] += 1
    stats["sharing=" + sp["sharing"]] += 1
    try:
        o = S.build(sp, id_seed=1)
        stats["built"] += 1
        r = S.reachable(o)
        assert set(r) - {"system"} == S.spec_reachable(sp), (sorted(set(r)), sorted(S.spec_reachable(sp)))
        s = snap.snapshot(r)
        stats["attrs"] += len(s)
    except Exception as ex:
        errs[type(ex).__name__ + ": " + str(ex)[:100]] += 1
        if not isinstance(ex, ValueError): traceback.print_exc()
t()
print(dict(stats), time.time() - t0)
for k, v in errs.most_common(): print(v, k)
