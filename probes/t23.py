from base import *
import pytz, bisect
from datetime import timedelta, timezone
UTC = pytz.utc
def ref_convert(naive_index_vals, zone_name):
    tz = pytz.timezone(zone_name)
    trans = getattr(tz, "_utc_transition_times", None)
    out = {}
    for t, v in naive_index_vals:
        # candidate offsets: those in force around t (+-2 days)
        offs = set()
        for d in (-2, -1, 0, 1, 2):
            u_ = UTC.localize(t + timedelta(days=d))
            offs.add(u_.astimezone(tz).utcoffset())
        valid = []
        for off in offs:
            u_ = UTC.localize(t - off)
            if u_.astimezone(tz).replace(tzinfo=None) == t: valid.append(u_)
        if valid: target = min(valid)
        else:
            # nonexistent: first transition instant u* with naive(u*) > ... i.e. smallest transition >= t - max(off)
            lo = t - max(offs)
            i = bisect.bisect_left(trans, lo.replace(tzinfo=None) if lo.tzinfo else lo)
            target = None
            for k in range(max(i - 1, 0), min(i + 3, len(trans))):
                u_ = UTC.localize(trans[k])
                if u_.astimezone(tz).replace(tzinfo=None) > t and (UTC.localize(trans[k]) - timedelta(seconds=1)).astimezone(tz).replace(tzinfo=None) < t:
                    target = u_; break
            assert target is not None, (t, zone_name)
        out[target] = out.get(target, 0.0) + v
    return out
import random
rng = random.Random(1)
zones = ["Europe/Paris", "Australia/Lord_Howe", "Asia/Kathmandu", "America/St_Johns", "Pacific/Apia", "Africa/Casablanca", "America/Sao_Paulo", "Asia/Tehran", "Pacific/Chatham", "Antarctica/Troll", "Europe/Dublin", "America/Havana", "Asia/Gaza"]
nbad = 0; ncase = 0; nontriv = 0; byzone = {}
def relaxed_equal(pairs, zn, gotd):
    tz = pytz.timezone(zn)
    fixed = {}; floating = []
    for t, v in pairs:
        offs = set((UTC.localize(t + timedelta(days=d))).astimezone(tz).utcoffset() for d in (-2,-1,0,1,2))
        valid = [UTC.localize(t - off) for off in offs if UTC.localize(t - off).astimezone(tz).replace(tzinfo=None) == t]
        if valid: fixed[min(valid)] = fixed.get(min(valid), 0.0) + v
        else: floating.append((t, v, ref_convert([(t, v)], zn)))
    # total check
    if abs(sum(gotd.values()) - sum(v for _, v in pairs)) > 1e-9: return False
    # subtract fixed
    rest = dict(gotd)
    for k, v in fixed.items():
        kk = k.astimezone(timezone.utc)
        if kk not in rest: return False
        rest[kk] -= v
    # floating values must be explained by entries within [gap_end, gap_end+1h]
    for t, v, d in floating:
        ge = list(d)[0].astimezone(timezone.utc)
        cands = [k for k in rest if ge <= k <= ge + timedelta(hours=1) and rest[k] >= v - 1e-9]
        if not cands: return False
        rest[min(cands)] -= v
    return all(abs(x) < 1e-9 for x in rest.values())
for zn in zones:
    tz = pytz.timezone(zn)
    trans = [t for t in getattr(tz, "_utc_transition_times", []) if 2000 <= t.year <= 2037]
    for tr in trans[:40]:
        off = UTC.localize(tr).astimezone(tz).utcoffset()
        start_local = (tr + off).replace(minute=0, second=0, microsecond=0) - timedelta(hours=rng.randint(1, 5))
        if rng.random() < 0.2: start_local = start_local.replace(minute=rng.choice([15, 30, 45]))
        vals = [rng.randint(0, 9) for _ in range(rng.randint(3, 12))]
        df = create_hourly_usage_df_from_list(vals, start_local)
        h = ExplainableHourlyQuantities(df, "x")
        try:
            got = h.convert_to_utc(SourceObject(tz)).value
        except Exception as e:
            print("RAISED", zn, start_local, type(e).__name__, str(e)[:80]); nbad += 1; continue
        exp = ref_convert(list(zip(df.index.to_pydatetime(), [float(x) for x in vals])), zn)
        gotd = {i.to_pydatetime(): float(x) for i, x in zip(got.index, got["value"].values._data)}
        ncase += 1
        if len(exp) != len(vals): nontriv += 1
        # relaxed: recompute exp allowing nonexistent placement anywhere in [gap_end, gap_end+1h]
        ok = relaxed_equal(list(zip(df.index.to_pydatetime(), [float(x) for x in vals])), zn, gotd)
        from collections import Counter
        if not ok: byzone[zn] = byzone.get(zn, 0) + 1
        if (not ok) or not got.index.is_monotonic_increasing or got.index.has_duplicates:
            nbad += 1
            if False: print("DIFF", zn, start_local, vals, sorted(gotd.items())[:4], sorted(exp.items())[:4])
print(byzone); print(ncase, "cases", nontriv, "merged", nbad, "bad")
