from base import *
from spec import compare
from efootprint.builders.services.video_streaming import VideoStreaming, VideoStreamingJob
from efootprint.builders.services.web_application import WebApplication, WebApplicationJob
from efootprint.builders.services.generative_ai_ecologits import GenAIModel, GenAIJob
from efootprint.builders.hardware.boavizta_cloud_server import BoaviztaCloudServer
from efootprint.core.hardware.gpu_server import GPUServer
def finish(jobs, name):
    step = UsageJourneyStep("s", SourceValue(1*u.min), jobs)
    up = mk_up("up", UsageJourney("uj", [step]), [10, 20, 30, 0, 5])
    return System(name, [up])
def q(x): return SourceValue(x.value)  # fresh SourceValue with same quantity
# --- builder model: video + web on one Server, plus a plain job
def model_B():
    srv = Server.from_defaults("srv", storage=Storage.ssd("st"), base_ram_consumption=SourceValue(1*u.GB), base_compute_consumption=SourceValue(1*u.cpu_core))
    vs = VideoStreaming.from_defaults("vs", server=srv); vj = VideoStreamingJob.from_defaults("vj", service=vs, video_duration=SourceValue(20*u.min), resolution=SourceObject("720p (1280 x 720)"))
    wa = WebApplication.from_defaults("wa", server=srv, technology=SourceObject("jvm-kotlin-spring")); wj = WebApplicationJob.from_defaults("wj", service=wa)
    pj = Job.from_defaults("pj", server=srv)
    return finish([vj, wj, pj], "B"), srv, [vj, wj], [vs, wa]
sysB, srvB, sjobs, svcs = model_B()
def model_P():
    base_ram = srvB.base_ram_consumption.value + sum(s.base_ram_consumption.value for s in svcs if not isinstance(s.base_ram_consumption, EmptyExplainableObject))
    base_cpu = srvB.base_compute_consumption.value + sum(s.base_compute_consumption.value for s in svcs if not isinstance(s.base_compute_consumption, EmptyExplainableObject))
    srv = Server.from_defaults("srv", storage=Storage.ssd("st"), base_ram_consumption=SourceValue(base_ram), base_compute_consumption=SourceValue(base_cpu))
    jobs = [Job(j.name, server=srv, data_transferred=q(j.data_transferred), data_stored=q(j.data_stored), request_duration=q(j.request_duration),
                compute_needed=q(j.compute_needed), ram_needed=q(j.ram_needed)) for j in sjobs]
    return finish(jobs + [Job.from_defaults("pj", server=srv)], "P")
sysP = model_P()
a, b = snapshot(sysB), snapshot(sysP)
keys = [k for k in a if k[0] in ("srv", "st", "up", "B") or k[0].endswith("-net")]
ren = lambda k: ("P" if k[0] == "B" else k[0], k[1])
d = [(k) for k in keys if ren(k) in b and compare({k: a[k]}, {k: b[ren(k)]})]
print("compared", len([k for k in keys if ren(k) in b]), "diffs", d)
vj = sjobs[0]
print("bitrate rule:", vj.dynamic_bitrate.value.to("MB/s").magnitude, 1280*720*0.1*30/8/1e6, "data:", vj.data_transferred.value.to("GB").magnitude, 1280*720*0.1*30/8/1e9*1200)
