from spec import *
import random, sys
def expected_containers(sp, live_ups):
    exp = {}
    def add(x, by): exp.setdefault(x, set()).add(by)
    for n, s in sp["servers"].items(): add(s["storage"], n)
    for n, j in sp["jobs"].items(): add(j["server"], n)
    for n, s in sp["steps"].items():
        for j in s["jobs"]: add(j, n)
    for n, uj in sp["journeys"].items():
        for s in uj["uj_steps"]: add(s, n)
    for n in live_ups:
        up = sp["ups"][n]
        add(up["usage_journey"], n); add(up["network"], n); add(up["country"], n)
        for d in up["devices"]: add(d, n)
    for n in sp["system"]: add(n, "system")
    return exp
def check(sp, o):
    probs = []
    live_ups = [n for n in sp["ups"] if n in o]
    exp = expected_containers(sp, live_ups)
    for n, obj in o.items():
        got = {c.name for c in obj.modeling_obj_containers}
        if got != exp.get(n, set()): probs.append(("containers", n, sorted(got), sorted(exp.get(n, set()))))
    # derived look-ups
    reach_jobs = {upn: [j for s in sp["journeys"][sp["ups"][upn]["usage_journey"]]["uj_steps"] for j in sp["steps"][s]["jobs"]] for upn in live_ups}
    for jn in sp["jobs"]:
        exp_ups = {upn for upn in live_ups if jn in reach_jobs[upn]}
        if {x.name for x in o[jn].usage_patterns} != exp_ups: probs.append(("job.usage_patterns", jn))
        if {x.name for x in o[jn].networks} != {sp["ups"][u_]["network"] for u_ in exp_ups}: probs.append(("job.networks", jn))
        exp_sys = {"system"} if exp_ups & set(sp["system"]) else set()
        if {x.name for x in o[jn].systems} != exp_sys: probs.append(("job.systems", jn, [x.name for x in o[jn].systems]))
    for sn in sp["servers"]:
        if {x.name for x in o[sn].jobs} != {jn for jn, j in sp["jobs"].items() if j["server"] == sn}: probs.append(("server.jobs", sn))
    for nn in sp["networks"]:
        ups = {upn for upn in live_ups if sp["ups"][upn]["network"] == nn}
        if {x.name for x in o[nn].usage_patterns} != ups: probs.append(("network.ups", nn))
        if {x.name for x in o[nn].jobs} != {j for upn in ups for j in reach_jobs[upn]}: probs.append(("network.jobs", nn))
    for n, obj in o.items():
        if len(obj.systems) > 1: probs.append(("two systems", n))
    return probs
exec(open("t4.py").read().split("sp = default_spec(); o = build(sp)")[0].split("seed = int")[0])
seed = int(sys.argv[1]); rng = random.Random(seed)
exec("NUM" + open("t4.py").read().split("\nNUM", 1)[1].split("sp = default_spec(); o = build(sp)")[0])
sp = default_spec(); o = build(sp)
print("initial", check(sp, o))
bad = 0
for i in range(15):
    e = gen_edit(sp)
    if e[0] in ("num", "starts"): continue
    try: apply(o, sp, e)
    except Exception as ex: print("raised", e, type(ex).__name__); break
    p = check(sp, o)
    if p: bad += 1; print(e, p[:3]); break
print("seed", seed, "bad", bad)
