from base import *
import random, sys
seed0 = int(sys.argv[1])
hits = []
for seed in range(seed0, seed0 + 150):
    rng = random.Random(seed)
    st = Storage.ssd("st", data_storage_duration=SourceValue(rng.choice([1,2,3,5,7])*u.hour), base_storage_need=SourceValue(0*u.TB),
                     data_replication_factor=SourceValue(rng.choice([1,2,3,1.5])*u.dimensionless))
    srv = mk_server("srv", st)
    jobs = [mk_job(f"j{i}", srv, data_stored=SourceValue(rng.choice([0.1, 0.3, 1.7, 100, 33.3, 0.7, 1e-3])*u(rng.choice(["kB","MB","GB"]))),
                   request_duration=SourceValue(rng.choice([1, 30, 3700, 7300, 10900])*u.s)) for i in range(rng.randint(1, 3))]
    steps = [UsageJourneyStep(f"s{i}", SourceValue(rng.choice([1, 61, 125])*u.min), [rng.choice(jobs) for _ in range(rng.randint(1, 2))]) for i in range(rng.randint(1, 3))]
    uj = UsageJourney("uj", steps)
    ups = [mk_up(f"up{k}", uj if k == 0 else UsageJourney(f"uj{k}", [rng.choice(steps)]), [rng.randint(0, 1000) * rng.choice([1, 0.125]) for _ in range(rng.randint(3, 40))],
                 start_date=datetime(2025, 1, 1, rng.randint(0, 23))) for k in range(rng.randint(1, 2))]
    try: System("sys", ups)
    except Exception as e:
        hits.append((seed, type(e).__name__, str(e)[:140]))
print(seed0, len(hits), hits[:2])
