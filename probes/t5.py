import sys
sys.argv = ["t4.py", "40", "10"]
import traceback
try:
    exec(open("t4.py").read().replace("except Exception as ex:\n        print(f\"seed={seed} step={i} edit={e} RAISED", "except Exception as ex:\n        traceback.print_exc(); print(hist); print(f\"seed={seed} step={i} edit={e} RAISED"))
except SystemExit: pass
