from spec import *
import traceback, sys, random
seed = int(sys.argv[1]) if len(sys.argv) > 1 else 0
nsteps = int(sys.argv[2]) if len(sys.argv) > 2 else 12
rng = random.Random(seed)

NUM = {"storages": ["storage_capacity","data_replication_factor","data_storage_duration","base_storage_need"],
       "servers": ["ram","compute","power_usage_effectiveness","average_carbon_intensity"],
       "jobs": ["data_transferred","data_stored","request_duration","compute_needed","ram_needed"],
       "steps": ["user_time_spent"], "devices": ["carbon_footprint_fabrication","power","lifespan","fraction_of_usage_time"],
       "countries": ["average_carbon_intensity"], "networks": ["bandwidth_energy_intensity"]}

def gen_edit(sp):
    kind = rng.choice(["num","num","num","job_server","step_jobs","uj_steps","up_uj","up_net","up_country","up_devices","sys_add","sys_rm","starts"])
    if kind == "num":
        cat = rng.choice(list(NUM)); n = rng.choice(list(sp[cat])); a = rng.choice(NUM[cat])
        m, unit = sp[cat][n][a]
        f = rng.choice([0.5, 2, 3, 10, 100, 0.01])
        if a == "request_duration": f = rng.choice([0.5, 2, 60, 3600, 1/60])
        return ("num", cat, n, a, (m * f, unit))
    if kind == "job_server": return ("link", "jobs", rng.choice(list(sp["jobs"])), "server", rng.choice(list(sp["servers"])))
    if kind == "step_jobs": return ("list", "steps", rng.choice(list(sp["steps"])), "jobs", [rng.choice(list(sp["jobs"])) for _ in range(rng.randint(0,3))])
    if kind == "uj_steps": return ("list", "journeys", rng.choice(list(sp["journeys"])), "uj_steps", [rng.choice(list(sp["steps"])) for _ in range(rng.randint(1,3))])
    ups = sp["system"]
    if kind == "up_uj": return ("link", "ups", rng.choice(ups), "usage_journey", rng.choice(list(sp["journeys"])))
    if kind == "up_net": return ("link", "ups", rng.choice(ups), "network", rng.choice(list(sp["networks"])))
    if kind == "up_country": return ("link", "ups", rng.choice(ups), "country", rng.choice(list(sp["countries"])))
    if kind == "up_devices": return ("list", "ups", rng.choice(ups), "devices", [rng.choice(list(sp["devices"])) for _ in range(rng.randint(1,2))])
    if kind == "starts":
        n = rng.choice(ups); return ("starts", n, [rng.randint(0,9) for _ in range(len(sp["ups"][n]["starts"]))], (2025,1,rng.randint(1,3),rng.randint(0,23)))
    if kind == "sys_add":
        cand = [n for n in sp["ups"] if n not in ups]
        if cand: return ("sys_add", rng.choice(cand))
    if kind == "sys_rm" and len(ups) > 1: return ("sys_rm", rng.choice(ups))
    return gen_edit(sp)

def apply(o, sp, e):
    if e[0] == "num":
        _, cat, n, a, val = e
        setattr(o[n], a, Q(*val)); sp[cat][n][a] = val
    elif e[0] == "link":
        _, cat, n, a, tgt = e
        setattr(o[n], a, o[tgt]); sp[cat][n][a] = tgt
    elif e[0] == "list":
        _, cat, n, a, tgts = e
        setattr(o[n], a, [o[t] for t in tgts]); sp[cat][n][a] = list(tgts)
    elif e[0] == "starts":
        _, n, vals, start = e
        o[n].hourly_usage_journey_starts = SourceHourlyValues(create_hourly_usage_df_from_list(vals, datetime(*start)))
        sp["ups"][n]["starts"] = vals; sp["ups"][n]["start"] = start
    elif e[0] == "sys_add":
        up = mk_up_from_spec(o, sp, e[1])
        o["system"].usage_patterns = list(o["system"].usage_patterns) + [up]; sp["system"] = sp["system"] + [e[1]]
    elif e[0] == "sys_rm":
        new = [x for x in sp["system"] if x != e[1]]
        o["system"].usage_patterns = [o[x] for x in new]; sp["system"] = new
        o[e[1]].self_delete(); del o[e[1]]

sp = default_spec(); o = build(sp)
hist = []
for i in range(nsteps):
    e = gen_edit(sp)
    sp_before = copy.deepcopy(sp)
    # is the target valid (fresh build works)?
    sp_try = copy.deepcopy(sp)
    try:
        o2 = build(copy.deepcopy(sp))  # dummy to keep timing realistic
    except Exception as ex:
        print("PRE fresh build failed?!", ex); break
    try:
        apply(o, sp, e)
    except Exception as ex:
        print(f"seed={seed} step={i} edit={e} RAISED {type(ex).__name__}: {str(ex)[:150]}")
        # check whether fresh build of target also raises
        try:
            build(copy.deepcopy(sp)); print("   fresh build of target spec OK (spec maybe partially updated)")
        except Exception as ex2:
            print(f"   fresh also raises {type(ex2).__name__}: {str(ex2)[:100]}")
        break
    hist.append(e)
    try:
        fresh = build(copy.deepcopy(sp))
    except Exception as ex:
        print(f"seed={seed} step={i} edit={e} live OK but fresh raised {type(ex).__name__}: {str(ex)[:150]}"); break
    d = compare(snapshot(o["system"]), snapshot(fresh["system"]))
    if d:
        print(f"seed={seed} step={i} edit={e} DIFF {[k for k,_ in d][:6]} (n={len(d)})")
        break
else:
    print(f"seed={seed} ok {nsteps} steps")
