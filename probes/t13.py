from spec import *
import json
from efootprint.api_utils.system_to_json import system_to_json
from efootprint.api_utils.json_to_system import json_to_system
sp = default_spec()
o = build(sp); system = o["system"]
d = json.loads(json.dumps(system_to_json(system, save_calculated_attributes=True)))
cls, flat = json_to_system(d)
sys2 = list(cls["System"].values())[0]
d2 = json.loads(json.dumps(system_to_json(sys2, save_calculated_attributes=True)))
def walk(a, b, path=""):
    if isinstance(a, dict) and isinstance(b, dict):
        for k in set(a) | set(b):
            if k not in a or k not in b: print(path, k, "missing in", "a" if k not in a else "b"); continue
            walk(a[k], b[k], path + "/" + k)
    elif a != b:
        if isinstance(a, list) and isinstance(b, list) and sorted(map(str,a)) == sorted(map(str,b)): print(path, "ORDER only")
        else: print(path, str(a)[:200], "||", str(b)[:200])
walk(d, d2)
