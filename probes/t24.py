from base import *
import pytz
from datetime import timedelta
def show(zn, start, n):
    tz = pytz.timezone(zn)
    vals = list(range(1, n+1))
    df = create_hourly_usage_df_from_list(vals, start)
    got = ExplainableHourlyQuantities(df, "x").convert_to_utc(SourceObject(tz)).value
    print(zn, start)
    for i, x in zip(got.index, got["value"].values._data): print("   ", i, float(x), "local:", i.tz_convert(zn))
    print("   total", float(got["value"].values._data.sum()), "expected", sum(vals), "monotonic", got.index.is_monotonic_increasing, "dups", got.index.has_duplicates)
# Troll: 2-hour DST jump in March (UTC+0 -> UTC+2) at 01:00 UTC last Sunday of March
show("Antarctica/Troll", datetime(2016, 3, 26, 23), 6)
# St Johns 2006-11: transitions at 00:01 local
show("America/St_Johns", datetime(2006, 4, 1, 22), 5)
# Apia skipped Dec 30 2011
show("Pacific/Apia", datetime(2011, 12, 29, 22), 5)
