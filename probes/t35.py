from t34 import *
import random, sys
seed0 = int(sys.argv[1]); bad = 0; n = 0; rej = 0
for seed in range(seed0, seed0 + 12):
    rng = random.Random(seed)
    sp = default_spec(); sp["system"] = ["up1", "up2", "up3"]
    for jn, j in sp["jobs"].items():
        j["request_duration"] = rng.choice([(0.2, "s"), (1, "s"), (59, "min"), (1, "hour"), (61, "min"), (3, "hour"), (150, "min")])
        j["data_stored"] = rng.choice([(100, "kB"), (0.3, "MB"), (33.3, "kB"), (0, "kB")])
        j["server"] = rng.choice(["srv1", "srv2"])
    for sn, s in sp["steps"].items():
        s["user_time_spent"] = rng.choice([(0, "min"), (1, "s"), (59, "min"), (60, "min"), (61, "min"), (2, "hour"), (2.5, "hour")])
        s["jobs"] = [rng.choice(list(sp["jobs"])) for _ in range(rng.randint(0, 3))]
    for st in sp["storages"].values():
        st["data_storage_duration"] = rng.choice([(1, "hour"), (3, "hour"), (2, "day"), (5, "year")])
        st["data_replication_factor"] = rng.choice([(1, ""), (2, ""), (3, ""), (1.5, "")])
        st["base_storage_need"] = rng.choice([(0, "TB"), (1, "GB"), (10, "TB")])
    for s in sp["servers"].values(): s["server_type"] = rng.choice(["autoscaling", "on-premise", "serverless"])
    for upn, up in sp["ups"].items():
        up["starts"] = [rng.randint(0, 1000) for _ in range(rng.randint(1, 30))]; up["start"] = (2025, 1, rng.randint(1, 2), rng.randint(0, 23))
        up["country"] = rng.choice(["c1", "c2"])
    try: o = build(sp)
    except ValueError as e:
        rej += 1; continue
    n += 1
    p = check(sp, o)
    if p: bad += 1; print(seed, p[:3])
print(seed0, "checked", n, "rejected", rej, "bad", bad)
