from spec import *
import pickle
snaps = [pickle.load(open(f"/tmp/play/snap{i}.pkl", "rb")) for i in range(4)]
for i in range(1, 4):
    d_exact = compare(snaps[0], snaps[i], rtol=0.0)
    d_tol = compare(snaps[0], snaps[i], rtol=1e-9)
    print(i, "exact diffs", len(d_exact), "tol diffs", len(d_tol), [k for k, _ in d_exact][:4])
