from t8 import *
print("=========== link/list simulations")
oA = build(copy.deepcopy(sp)); sysA = oA["system"]
a0, g0, s0 = idsnap(sysA), graphsnap(sysA), snapshot(sysA)
first = min(up.utc_hourly_usage_journey_starts.value.index.min() for up in sysA.usage_patterns).to_pydatetime()
def edgeset(g): return {k[:2] + (tuple(sorted(v[0])), tuple(sorted(v[1]))) for k, v in g.items()}
def chk(label):
    a1, g1, s1 = idsnap(sysA), graphsnap(sysA), snapshot(sysA)
    ign = ("previous_total",)
    print(label, "identity diffs:", [k for k in a0 if a0[k] != a1.get(k) and not k[1].startswith("previous_")][:5], "graph set diffs:", len(edgeset(g0) ^ edgeset(g1)), "value diffs:", len(compare(s0, s1)))
for label, changes in [
    ("link job.server", lambda: [[oA["j1"].server, oA["srv2"]]]),
    ("list step.jobs", lambda: [[oA["s1"].jobs, [oA["j1"], oA["j3"]]]]),
    ("up.network", lambda: [[oA["up1"].network, oA["n2"]]]),
    ("mixed", lambda: [[oA["j1"].data_stored, Q(5, "MB")], [oA["up2"].country, oA["c1"]], [oA["ujA"].uj_steps, [oA["s2"]]]]),
    ("starts", lambda: [[oA["up1"].hourly_usage_journey_starts, SourceHourlyValues(create_hourly_usage_df_from_list([9, 9, 9, 9, 9], datetime(2025, 1, 1)))]]),
]:
    for date in (first, first + timedelta(hours=3)):
        try:
            sim = ModelingUpdate(changes(), simulation_date=date)
            chk(f"{label} @{date.hour}h created")
            sim.set_updated_values(); sim.reset_values(); sim.set_updated_values(); sim.reset_values()
            chk(f"{label} @{date.hour}h toggled")
        except Exception as e:
            import traceback
            print(label, date, "RAISED", type(e).__name__, str(e)[:120]); chk(f"{label} after raise")
