from spec import *
from datetime import timezone, timedelta
sp = default_spec()
# no sharing
sp["jobs"]["j4"] = dict(server="srv2", data_transferred=(3,"MB"), data_stored=(10,"kB"), request_duration=(2,"s"), compute_needed=(0.2,"cpu_core"), ram_needed=(100,"MB"))
sp["steps"] = {"s1": dict(user_time_spent=(1,"min"), jobs=["j1"]), "s2": dict(user_time_spent=(70,"min"), jobs=["j2","j2"]), "s3": dict(user_time_spent=(0,"min"), jobs=["j3"]), "s4": dict(user_time_spent=(10,"min"), jobs=[]), "s5": dict(user_time_spent=(10,"min"), jobs=["j4"])}
sp["journeys"] = {"ujA": dict(uj_steps=["s1","s2"]), "ujB": dict(uj_steps=["s3","s4"]), "ujC": dict(uj_steps=["s5"])}
o = build(sp)
system = o["system"]
def idsnap(system):
    out = {}
    for obj in [system] + system.all_linked_objects:
        for k, v in obj.__dict__.items():
            if k in ("contextual_modeling_obj_containers","simulation","all_changes","previous_change"): continue
            if isinstance(v, dict) and not isinstance(v, ExplainableQuantity):
                out[(obj.name, k)] = ("dict", id(v), tuple((kk.name if hasattr(kk,"name") else kk, id(vv)) for kk, vv in v.items()))
            elif isinstance(v, list):
                out[(obj.name, k)] = ("list", id(v), tuple(id(x) for x in v))
            else:
                out[(obj.name, k)] = id(v)
    return out
def graphsnap(system):
    out = {}
    for obj in [system] + system.all_linked_objects:
        for k, v in obj.__dict__.items():
            vals = list(v.values()) if isinstance(v, dict) else [v]
            for x in vals:
                if hasattr(x, "direct_children_with_id"):
                    out[(obj.name, k, id(x))] = (tuple(id(a) for a in x.direct_ancestors_with_id), tuple(id(c) for c in x.direct_children_with_id))
    return out
a0, g0, s0 = idsnap(system), graphsnap(system), snapshot(system)
utc_min = min(up.utc_hourly_usage_journey_starts.value.index.min() for up in system.usage_patterns)
print("period starts", utc_min)
sim = ModelingUpdate([[o["j1"].data_transferred, Q(10, "MB")], [o["srv1"].ram, Q(64, "GB")]], simulation_date=utc_min.to_pydatetime() + timedelta(hours=2))
a1, g1, s1 = idsnap(system), graphsnap(system), snapshot(system)
print("identity diffs:", [k for k in a0 if a0[k] != a1.get(k)][:10], [k for k in a1 if k not in a0][:5])
print("graph diffs:", [k for k in g0 if g0[k] != g1.get(k)][:10], len([k for k in g1 if k not in g0]))
print("value diffs:", compare(s0, s1)[:5])
print(len(sim.values_to_recompute), len(sim.recomputed_values))
for v, r in zip(sim.values_to_recompute, sim.recomputed_values):
    if isinstance(r, ExplainableHourlyQuantities): print(v.id if v.modeling_obj_container else "?", r.value.index.min(), len(r.value)); break
sim.set_updated_values()
s2 = snapshot(system)
print("n changed when set:", len(compare(s0, s2)))
sim.reset_values()
a3, g3 = idsnap(system), graphsnap(system)
print("identity diffs after toggle:", [k for k in a0 if a0[k] != a3.get(k)][:10])
print("graph diffs after toggle:", [k for k in g0 if g0[k] != g3.get(k)][:10])
names = {}
for obj in [system] + system.all_linked_objects:
    for k, v in obj.__dict__.items():
        vals = list(v.values()) if isinstance(v, dict) else [v]
        for x in vals:
            if hasattr(x, "direct_children_with_id"): names[id(x)] = f"{obj.name}.{k}"
for k in list(g0)[:400]:
    if g0[k] != g3.get(k):
        a, c = g0[k]; a3_, c3 = g3[k]
        if sorted(a) != sorted(a3_): print(k[:2], "ANC set differs", [names.get(i, i) for i in a], [names.get(i, i) for i in a3_])
        if sorted(c) != sorted(c3): print(k[:2], "CHILD set differs", [names.get(i, "detached?") for i in c], "->", [names.get(i, "detached?") for i in c3])
        if sorted(a) == sorted(a3_) and sorted(c) == sorted(c3): print(k[:2], "order only")
