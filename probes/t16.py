from base import *
import time
from efootprint.builders.services.video_streaming import VideoStreaming, VideoStreamingJob
from efootprint.builders.services.web_application import WebApplication, WebApplicationJob
from efootprint.builders.services.generative_ai_ecologits import GenAIModel, GenAIJob
from efootprint.builders.hardware.boavizta_cloud_server import BoaviztaCloudServer
from efootprint.core.hardware.gpu_server import GPUServer
t = time.time()
srv = Server.from_defaults("srv", storage=Storage.ssd("st"))
vs = VideoStreaming.from_defaults("vs", server=srv)
vj = VideoStreamingJob.from_defaults("vj", service=vs, video_duration=SourceValue(20*u.min))
wa = WebApplication.from_defaults("wa", server=srv)
wj = WebApplicationJob.from_defaults("wj", service=wa)
gpu = GPUServer.from_defaults("gpu", storage=Storage.ssd("st2"))
gm = GenAIModel.from_defaults("gm", server=gpu)
gj = GenAIJob.from_defaults("gj", service=gm)
cloud = BoaviztaCloudServer.from_defaults("cloud", storage=Storage.ssd("st3"))
pj = Job.from_defaults("pj", server=cloud)
step = UsageJourneyStep("s", SourceValue(1*u.min), [vj, wj, gj, pj])
uj = UsageJourney("uj", [step])
up = mk_up("up", uj, [10, 20, 30])
system = System("sys", [up])
print("built in", time.time() - t)
print(system.total_footprint)
for obj in (vj, wj, gj, cloud, gm):
    for a in obj.calculated_attributes[:6]:
        print(obj.name, a, getattr(obj, a))
t = time.time()
vj.resolution = SourceObject("4K (3840 x 2160)")
print("edit", time.time() - t, vj.dynamic_bitrate, vj.data_transferred)
print(len(WebApplication.list_values()["technology"]), len(GenAIModel.list_values()["provider"]), len(BoaviztaCloudServer.list_values()["provider"]), sum(len(v) for v in BoaviztaCloudServer.conditional_list_values()["instance_type"]["conditional_list_values"].values()))
