from t8 import *
print("=========== C06")
import copy as _c
sp2 = _c.deepcopy(sp)
oB = build(sp2); sysB = oB["system"]
oA = build(_c.deepcopy(sp)); sysA = oA["system"]
first = min(up.utc_hourly_usage_journey_starts.value.index.min() for up in sysA.usage_patterns).to_pydatetime()
simA = ModelingUpdate([[oA["j1"].data_transferred, Q(10, "MB")], [oA["srv1"].ram, Q(64, "GB")]], simulation_date=first)
oB["j1"].data_transferred = Q(10, "MB"); oB["srv1"].ram = Q(64, "GB")
simA.set_updated_values()
print("first-hour sim vs real:", compare(snapshot(sysA), snapshot(sysB))[:6])
simA.reset_values()
# naive date
try: ModelingUpdate([[oA["j1"].data_transferred, Q(11, "MB")]], simulation_date=datetime(2025,1,1,1))
except Exception as e: print("naive:", type(e).__name__, str(e)[:60])
print("after naive rejected:", compare(s0, snapshot(sysA))[:4], oA["j1"].data_transferred)
# outside
from datetime import timezone
try: ModelingUpdate([[oA["j1"].data_transferred, Q(12, "MB")]], simulation_date=datetime(2026,1,1,1, tzinfo=timezone.utc))
except Exception as e: print("outside:", type(e).__name__, str(e)[:60])
print("after outside rejected:", compare(s0, snapshot(sysA))[:4], oA["j1"].data_transferred)
# failing midway
try: ModelingUpdate([[oA["srv1"].base_ram_consumption, Q(500, "GB")]], simulation_date=first + timedelta(hours=1))
except Exception as e: print("fail midway:", type(e).__name__, str(e)[:60])
print("after failing sim:", [k for k,_ in compare(s0, snapshot(sysA))][:8], oA["srv1"].base_ram_consumption)
