from spec import *
import pickle, sys
sp = default_spec()
sp["system"] = ["up1", "up2", "up3"]
o = build(sp)
pickle.dump(snapshot(o["system"]), open(sys.argv[1], "wb"))
