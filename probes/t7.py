import sys
sys.argv = ["t6.py", "10", "14"]
src = open("t6.py").read()
src = src.replace("exec(src)", "exec(src.replace('        print(f\"seed={seed} step={i} edit={e} DIFF', '        print(hist); print(f\"seed={seed} step={i} edit={e} DIFF'))")
exec(src)
