import t16
from base import *
import json
from efootprint.api_utils.system_to_json import system_to_json
d = json.loads(json.dumps(system_to_json(t16.system, save_calculated_attributes=True)))
for c, objs in d.items():
    if not isinstance(objs, dict): continue
    for oid, attrs in objs.items():
        for a, v in attrs.items():
            if isinstance(v, dict) and "label" in v and not any(k in v for k in ("value", "values", "zone")):
                print(c, oid, a, {k: (str(x)[:40]) for k, x in v.items()})
