import sys
src = open("t4.py").read()
# stop when sharing appears
src = src.replace("    hist.append(e)\n", "    hist.append(e)\n    if any(len(o[j].usage_patterns) > 1 for j in sp['jobs']):\n        print(f'seed={seed} EXCLUDED sharing at step {i}'); break\n")
src = src.replace("sp = default_spec(); o = build(sp)", '''sp = default_spec()
sp["jobs"]["j4"] = dict(server="srv2", data_transferred=(3,"MB"), data_stored=(10,"kB"), request_duration=(2,"s"), compute_needed=(0.2,"cpu_core"), ram_needed=(100,"MB"))
sp["storages"]["st2"]["base_storage_need"] = (1, "TB")
sp["steps"] = {"s1": dict(user_time_spent=(1,"min"), jobs=["j1"]), "s2": dict(user_time_spent=(70,"min"), jobs=["j2","j2"]), "s3": dict(user_time_spent=(0,"min"), jobs=["j3"]), "s4": dict(user_time_spent=(10,"min"), jobs=[]), "s5": dict(user_time_spent=(10,"min"), jobs=["j4"])}
sp["journeys"] = {"ujA": dict(uj_steps=["s1","s2"]), "ujB": dict(uj_steps=["s3","s4"]), "ujC": dict(uj_steps=["s5"])}
sp["ups"]["up3"]["usage_journey"] = "ujC"
o = build(sp)''')
exec(src)
