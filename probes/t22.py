from spec import *
from efootprint.abstract_modeling_classes.explainable_object_base_class import ExplainableObject
import numpy as np
from collections import Counter
def phys(v):
    if isinstance(v, EmptyExplainableObject): return None
    if isinstance(v, ExplainableHourlyQuantities):
        s = v.value["value"].pint.to_base_units()
        return ("h", s.pint.units.dimensionality, {i: float(x) for i, x in zip(v.value.index, s.values._data)})
    if isinstance(v, ExplainableQuantity):
        q = v.value.to_base_units(); return ("q", q.units.dimensionality, float(q.magnitude))
    return ("o", None, repr(v.value))
def ref(op, L, R):
    # returns expected phys or "skip"
    if L is None and R is None: return None
    if op in "+-":
        if R is None: return L
        if L is None: return R if op == "+" else "skip"
        if L[1] != R[1]: return "dim"
        sgn = 1 if op == "+" else -1
        if L[0] == "q" and R[0] == "q": return ("q", L[1], L[2] + sgn * R[2])
        if L[0] == "h" and R[0] == "h":
            keys = set(L[2]) | set(R[2]) if op == "+" else set(L[2]) & set(R[2])
            return ("h", L[1], {k: L[2].get(k, 0.0) + sgn * R[2].get(k, 0.0) for k in keys})
        return "skip"
    if op == "*":
        if L is None or R is None: return None
        dim = L[1] * R[1]
        if L[0] == "q" and R[0] == "q": return ("q", dim, L[2] * R[2])
        if L[0] == "h" and R[0] == "q": return ("h", dim, {k: v * R[2] for k, v in L[2].items()})
        if L[0] == "q" and R[0] == "h": return ("h", dim, {k: v * L[2] for k, v in R[2].items()})
        keys = set(L[2]) | set(R[2]); return ("h", dim, {k: L[2].get(k, 0.0) * R[2].get(k, 0.0) for k in keys})
    if op == "/":
        if L is None: return None
        if R is None: return "skip"
        dim = L[1] / R[1]
        if L[0] == "q" and R[0] == "q": return ("q", dim, L[2] / R[2])
        if L[0] == "h" and R[0] == "q": return ("h", dim, {k: v / R[2] for k, v in L[2].items()})
        if L[0] == "q" and R[0] == "h": return ("h", dim, {k: L[2] / v for k, v in R[2].items()})
        return "skip"
def close(a, b):
    if a is None or b is None:
        x = a or b
        if x is None: return True
        return all(v == 0 for v in x[2].values()) if x[0] == "h" else x[2] == 0
    if a[0] != b[0] or a[1] != b[1]: return False
    if a[0] == "q": return abs(a[2] - b[2]) <= 1e-9 * max(abs(a[2]), abs(b[2]), 1e-300)
    keys = set(a[2]) | set(b[2]); sc = max([abs(v) for v in a[2].values()] + [abs(v) for v in b[2].values()] + [1e-300])
    return all(abs(a[2].get(k, 0.0) - b[2].get(k, 0.0)) <= 1e-9 * sc for k in keys)
stats = Counter(); bad = []
leaves = Counter()
def walk(node, root, seen):
    if id(node) in seen: return
    seen.add(id(node))
    L, R = node.left_parent, node.right_parent
    if L is None and R is None:
        leaves[(node.label if node.modeling_obj_container is None else "<attached>", node.modeling_obj_container is not None, getattr(node, "source", None) is not None)] += 1
        return
    if node.operator in ("+", "-", "*", "/") and L is not None and R is not None:
        e = ref(node.operator, phys(L), phys(R))
        if e == "skip": stats["skip"] += 1
        elif e == "dim": stats["dim"] += 1; bad.append((root, node.operator, "dim"))
        else:
            ok = close(e, phys(node)); stats["ok" if ok else "BAD"] += 1
            if not ok: bad.append((root, node.operator, str(L)[:40], str(R)[:40], str(node)[:60]))
    else: stats["other:" + str(node.operator)[:25]] += 1
    for p in (L, R):
        if p is not None and not (p.modeling_obj_container is not None and p is not node): walk(p, root, seen)
        elif p is not None: leaves[("<attached frontier>", True, getattr(p, "source", None) is not None)] += 0
import t16  # builders system
for system in (build(default_spec())["system"], t16.system):
    for obj in [system] + system.all_linked_objects:
        for a in obj.calculated_attributes:
            v = getattr(obj, a)
            for x in (v.values() if isinstance(v, dict) else [v]):
                try: s = x.explain(); assert isinstance(s, str)
                except Exception as e: bad.append((obj.name, a, "explain raised", repr(e)[:80]))
                if not x.label: bad.append((obj.name, a, "no label"))
                walk(x, f"{obj.name}.{a}", set())
print(stats); print(bad[:10]); 
for k, v in leaves.items(): print(k, v)
