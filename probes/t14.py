from spec import *
import time
sp = default_spec()
t=time.time(); 
for _ in range(5): o = build(copy.deepcopy(sp))
print("build", (time.time()-t)/5)
t=time.time()
for _ in range(5): s = snapshot(o["system"])
print("snapshot", (time.time()-t)/5)
t=time.time()
for i in range(5): o["j1"].data_transferred = Q(100+i, "kB")
print("edit num", (time.time()-t)/5)
t=time.time()
for i in range(4): o["up1"].usage_journey = o["ujB" if i%2==0 else "ujA"]
print("edit link", (time.time()-t)/4)
import json
from efootprint.api_utils.system_to_json import system_to_json
from efootprint.api_utils.json_to_system import json_to_system
t=time.time(); d = system_to_json(o["system"], False); json_to_system(d); print("roundtrip", time.time()-t)
