import matplotlib; matplotlib.use("Agg")
import sys; sys.path.insert(0, "/tmp/play")
from spec import *
from efootprint.api_utils.system_to_json import system_to_json
sp = default_spec(); o = build(sp); system = o["system"]
def inputs(system):
    out = {}
    for obj in [system] + system.all_linked_objects:
        for k, v in obj.__dict__.items():
            if k in obj.calculated_attributes or k in obj.attributes_that_shouldnt_trigger_update_logic: continue
            if isinstance(v, (ExplainableQuantity, ExplainableHourlyQuantities)): out[(obj.name, k)] = ser(v)
    return out
i0 = inputs(system); s0 = snapshot(system)
ops = {
 "str": lambda: [str(x) for x in [system] + system.all_linked_objects],
 "explain": lambda: [getattr(x, a).explain() for x in system.all_linked_objects for a in x.calculated_attributes if not isinstance(getattr(x, a), dict)],
 "json": lambda: system_to_json(system, True),
 "plot_cat": lambda: system.plot_footprints_by_category_and_object(return_only_html=True),
 "edit": lambda: setattr(o["d1"], "power", Q(20, "W")),
 "plot_diff": lambda: system.plot_emission_diffs(filepath="diff.png"),
 "plot_value": lambda: o["srv1"].energy_footprint.plot(filepath=None),
 "obj_graph": lambda: system.object_relationship_graph_to_file("objg.html"),
 "calc_graph": lambda: system.total_footprint.calculus_graph_to_file("calcg.html"),
 "props": lambda: (system.fabrication_footprint_sum_over_period, system.energy_footprint_sum_over_period, system.total_energy_footprints),
}
for name, f in ops.items():
    try: f(); r = "ok"
    except Exception as e: r = f"RAISED {type(e).__name__}: {str(e)[:80]}"
    if name == "edit": i0 = inputs(system); s0 = snapshot(system)
    print(name, r, "inputs changed:", [k for k in i0 if i0[k] != inputs(system).get(k)][:3], "values changed:", len(compare(s0, snapshot(system))))
