"""C03/C04 reference-model probe: recompute occurrences, volumes, needs, instances, storage from the spec."""
from spec import *
import math, random, sys
from datetime import timedelta
def hours(q): return (q[0] * u(q[1])).to(u.hour).magnitude
def base(q): return (q[0] * u(q[1])).to_base_units().magnitude
def ser(snap, n, a, k=None):
    v = snap.get((n, a))
    if isinstance(v, dict): v = v.get(k)
    return dict(v[1]) if v else {}
def tot(d): return sum(d.values())
def check(sp, o):
    system = o["system"]; snap = snapshot(system); probs = []
    def close(a, b, what, rt=1e-9):
        if abs(a - b) > rt * max(abs(a), abs(b), 1e-30): probs.append((what, a, b))
    occ_job_up = {}
    for upn in sp["system"]:
        up = sp["ups"][upn]; uj = sp["journeys"][up["usage_journey"]]
        starts = ser(snap, upn, "utc_hourly_usage_journey_starts")
        exp = {}
        delay = 0.0
        for sn in uj["uj_steps"]:
            for jn in sp["steps"][sn]["jobs"]:
                d = exp.setdefault(jn, {})
                sh = math.floor(delay)
                for t, v in starts.items():
                    import pandas as pd
                    tt = str(pd.Timestamp(t) + pd.Timedelta(hours=sh))
                    d[tt] = d.get(tt, 0.0) + v
            delay += hours(sp["steps"][sn]["user_time_spent"])
        for jn, d in exp.items():
            got = ser(snap, jn, "hourly_occurrences_per_usage_pattern", upn)
            keys = set(d) | set(got)
            if any(abs(d.get(k, 0) - got.get(k, 0)) > 1e-9 * max(1, abs(d.get(k, 0))) for k in keys): probs.append(("occ placement", jn, upn))
            j = sp["jobs"][jn]
            close(tot(ser(snap, jn, "hourly_data_transferred_per_usage_pattern", upn)), tot(d) * base(j["data_transferred"]), ("data_transferred", jn, upn))
            close(tot(ser(snap, jn, "hourly_data_stored_per_usage_pattern", upn)), tot(d) * base(j["data_stored"]), ("data_stored", jn, upn))
            close(tot(ser(snap, jn, "hourly_avg_occurrences_per_usage_pattern", upn)), tot(d) * hours(j["request_duration"]), ("avg_occ", jn, upn))
            occ_job_up[(jn, upn)] = d
        ujdur = sum(hours(sp["steps"][sn]["user_time_spent"]) for sn in uj["uj_steps"])
        close(tot(ser(snap, upn, "nb_usage_journeys_in_parallel")), tot(starts) * ujdur, ("uj in parallel", upn))
        pw = sum(base(sp["devices"][d]["power"]) for d in up["devices"])
        close(tot(ser(snap, upn, "devices_energy")), tot(starts) * ujdur * pw * 3600, ("devices_energy", upn))
    # servers
    for sn, s in sp["servers"].items():
        if (sn, "hour_by_hour_ram_need") not in snap: continue
        exp_ram = sum(tot(d) * hours(sp["jobs"][jn]["request_duration"]) * base(sp["jobs"][jn]["ram_needed"]) for (jn, upn), d in occ_job_up.items() if sp["jobs"][jn]["server"] == sn)
        close(tot(ser(snap, sn, "hour_by_hour_ram_need")), exp_ram, ("ram need", sn))
        raw = ser(snap, sn, "raw_nb_of_instances"); nb = ser(snap, sn, "nb_of_instances")
        typ = s["server_type"]
        for t in raw:
            if typ == "serverless" and abs(nb[t] - raw[t]) > 1e-9 * max(1, raw[t]): probs.append(("serverless nb", sn, t))
            if typ == "autoscaling" and nb[t] != math.ceil(raw[t]): probs.append(("autoscaling nb", sn, t, nb[t], raw[t]))
            if typ == "on-premise" and (nb[t] < math.ceil(max(raw.values())) or len(set(nb.values())) > 1): probs.append(("onprem nb", sn, t))
        # storage
        stn = s["storage"]; st = sp["storages"][stn]
        r = base(st["data_replication_factor"]); durh = math.ceil(hours(st["data_storage_duration"]))
        need = {}
        import pandas as pd
        for (jn, upn), d in occ_job_up.items():
            if sp["jobs"][jn]["server"] != sn: continue
            for t, v in ser(snap, jn, "hourly_data_stored_per_usage_pattern", upn).items():
                need[t] = need.get(t, 0.0) + v  # per-hour stored volume as computed (spread checked above by totals)
        pos = {}; neg = {}
        for (jn, upn), d in occ_job_up.items():
            if sp["jobs"][jn]["server"] != sn: continue
            tgt = pos if base(sp["jobs"][jn]["data_stored"]) >= 0 else neg
            for t, v in ser(snap, jn, "hourly_data_stored_per_usage_pattern", upn).items(): tgt[t] = tgt.get(t, 0.0) + v * r
        if not pos and not neg: continue
        last = max(pd.Timestamp(t) for t in pos) if pos else None
        delta = {}
        for t, v in pos.items(): delta[t] = delta.get(t, 0.0) + v
        for t, v in neg.items(): delta[t] = delta.get(t, 0.0) + v
        for t, v in pos.items():
            tt = pd.Timestamp(t) + pd.Timedelta(hours=durh)
            if tt <= last: delta[str(tt)] = delta.get(str(tt), 0.0) - v
        got_delta = ser(snap, stn, "storage_delta")
        keys = set(delta) | set(got_delta)
        sc = max([abs(x) for x in delta.values()] + [1e-30])
        if any(abs(delta.get(k, 0) - got_delta.get(k, 0)) > 1e-9 * sc for k in keys): probs.append(("storage delta", stn))
        cum = 0.0; expcum = {}
        for i, t in enumerate(sorted(keys, key=pd.Timestamp)):
            cum += delta.get(t, 0.0) + (base(st["base_storage_need"]) if i == 0 else 0.0); expcum[t] = cum
        gotcum = ser(snap, stn, "full_cumulative_storage_need")
        sc = max([abs(x) for x in expcum.values()] + [1e-30])
        if any(abs(expcum.get(k, 0) - gotcum.get(k, 0)) > 1e-9 * sc for k in set(expcum) | set(gotcum)): probs.append(("storage cumulative", stn))
        cap = base(st["storage_capacity"]); nbi = ser(snap, stn, "nb_of_instances"); act = ser(snap, stn, "nb_of_active_instances")
        for t, c in gotcum.items():
            if nbi.get(t, 0) * cap < c - 1e-9 * sc: probs.append(("storage under-provisioned", stn, t))
            if c < -1e-9 * sc: probs.append(("negative cumulative", stn, t))
        for t, a in act.items():
            if a < -1e-12 or a > nbi.get(t, 0) + 1e-9: probs.append(("active > provisioned", stn, t, a, nbi.get(t)))
    return probs
if __name__ == "__main__":
    sp = default_spec(); sp["system"] = ["up1", "up2", "up3"]
    sp["jobs"]["j2"]["request_duration"] = (150, "min"); sp["steps"]["s2"]["user_time_spent"] = (125, "min")
    sp["storages"]["st2"]["data_storage_duration"] = (3, "hour")
    o = build(sp)
    print(check(sp, o)[:10])
