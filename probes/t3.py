from spec import *
import traceback
sp = default_spec()
o = build(sp)
print(o["system"].total_footprint)
def check(label, sp, o):
    try:
        fresh = build(copy.deepcopy(sp))
    except Exception as e:
        print(label, "fresh build raised", repr(e)[:200]); return
    d = compare(snapshot(o["system"]), snapshot(fresh["system"]))
    print(label, "DIFFS:" if d else "ok", d[:12])
# 1. repoint up2 journey
o["up2"].usage_journey = o["ujC"]; sp["ups"]["up2"]["usage_journey"] = "ujC"; check("up2.uj=ujC", sp, o)
# 2. network change
o["up2"].network = o["n2"]; sp["ups"]["up2"]["network"] = "n2"; check("up2.network=n2", sp, o)
# 3. job server change
o["j1"].server = o["srv2"]; sp["jobs"]["j1"]["server"] = "srv2"; check("j1.server=srv2", sp, o)
# 4. step jobs replace
o["s1"].jobs = [o["j3"], o["j1"]]; sp["steps"]["s1"]["jobs"] = ["j3","j1"]; check("s1.jobs=[j3,j1]", sp, o)
# 5. add up3 to system
mk_up_from_spec(o, sp, "up3"); o["system"].usage_patterns = [o["up1"], o["up2"], o["up3"]]; sp["system"] = ["up1","up2","up3"]; check("sys.ups+=up3", sp, o)
# 6. uj steps
o["ujA"].uj_steps = [o["s2"], o["s4"], o["s1"]]; sp["journeys"]["ujA"]["uj_steps"] = ["s2","s4","s1"]; check("ujA.steps", sp, o)
# 7. country
o["up1"].country = o["c2"]; sp["ups"]["up1"]["country"] = "c2"; check("up1.country=c2", sp, o)
# 8. devices append
o["up1"].devices.append(o["d2"]); sp["ups"]["up1"]["devices"].append("d2"); check("up1.devices.append", sp, o)
# 9. remove up1
o["system"].usage_patterns = [o["up2"], o["up3"]]; sp["system"] = ["up2","up3"]; check("sys.ups-=up1", sp, o)
