from base import *
st = mk_storage(); srv = mk_server("srv", st)
j1 = mk_job("j1", srv); j2 = mk_job("j2", srv)
s1 = UsageJourneyStep("s1", SourceValue(1*u.min), [j1]); s2 = UsageJourneyStep("s2", SourceValue(2*u.min), [j2])
ujA = UsageJourney("ujA", [s1, s2]); ujB = UsageJourney("ujB", [s1])
net = Network.wifi_network("net")
up1 = mk_up("up1", ujA, [1,2,3,4,5], network=net); up2 = mk_up("up2", ujB, [5,4,3,2,1,7], start_date=datetime(2025,1,1,3), network=net)
sys_ = System("sys", [up1, up2])
print(sys_.total_footprint)
snap0 = snapshot(sys_)
# edit: request_duration of j1
old = j1.request_duration
j1.request_duration = SourceValue(2*u.hour)
snap1 = snapshot(sys_)
changed = [k for k in snap0 if snap0[k]!=snap1[k]]
print("changed after request_duration edit:", changed)
j1.request_duration = old
snap2 = snapshot(sys_)
print("restored:", [k for k in snap0 if snap0[k]!=snap2[k]])
