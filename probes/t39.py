from base import *
from efootprint.builders.time_builders import *
import random
from datetime import timedelta
rng = random.Random(3); bad = 0; n = 0
for _ in range(300):
    start = datetime(rng.randint(1999, 2040), rng.randint(1, 12), rng.randint(1, 28), rng.choice([0, 0, 5, 23]))
    days = rng.choice([1, 2, 7, 30, 31, 366, 1.5, 0.25])
    freq = rng.choice(["daily", "weekly", "monthly", "yearly"])
    hours_ = sorted(rng.sample(range(24), rng.randint(1, 4)))
    ad = None
    if freq == "weekly": ad = sorted(rng.sample(range(7), rng.randint(1, 3)))
    if freq == "monthly": ad = sorted(rng.sample(range(1, 32), rng.randint(1, 3)))
    if freq == "yearly": ad = sorted(rng.sample(range(1, 367), rng.randint(1, 5)))
    vol = rng.choice([1, 2.5, 1000])
    unit = rng.choice([u.dimensionless, u.GB])
    r = create_hourly_usage_from_frequency(days * u.day, vol, freq, ad, hours_, start, unit)
    df = r.value; n += 1
    idx = [t.to_pydatetime() for t in df.index]
    ok = idx[0] == start and all(b - a == timedelta(hours=1) for a, b in zip(idx, idx[1:])) and r.unit == unit
    for t, v in zip(idx, df["value"].values._data):
        if freq == "daily": m = t.hour in hours_
        elif freq == "weekly": m = t.weekday() in ad and t.hour in hours_
        elif freq == "monthly": m = t.day in ad and t.hour in hours_
        else: m = t.timetuple().tm_yday in ad and t.hour in hours_
        if float(v) != (vol if m else 0.0): ok = False
    # last index
    if idx[-1] > start + timedelta(days=days): ok = False
    if not ok: bad += 1; print("BAD", start, days, freq, ad, hours_)
    # daily volume builder
    r2 = create_hourly_usage_from_daily_volume_and_list_of_hours(days * u.day, 240, hours_, start, unit)
    byday = {}
    for t, v in zip(r2.value.index, r2.value["value"].values._data): byday.setdefault(t.date(), []).append(float(v))
    for d, vs in byday.items():
        if len(vs) == 24 and abs(sum(vs) - 240) > 1e-9: bad += 1; print("BAD daily", start, days, hours_, sum(vs)); break
# list builder
r = create_source_hourly_values_from_list([1, 2.5, 3], datetime(2024, 2, 29, 22), u.MB)
print(r.value, r.unit)
lg = linear_growth_hourly_values(2.5 * u.day, 10, 100, datetime(2025, 1, 1)); print(len(lg.value), lg.value["value"].values._data[0], lg.value["value"].values._data[-1])
print(n, "cases", bad, "bad")
