from base import *
def build(rd):
    st = mk_storage(); srv = mk_server("srv", st)
    j1 = mk_job("j1", srv, request_duration=SourceValue(rd)); j2 = mk_job("j2", srv)
    s1 = UsageJourneyStep("s1", SourceValue(1*u.min), [j1]); s2 = UsageJourneyStep("s2", SourceValue(2*u.min), [j2])
    ujA = UsageJourney("ujA", [s1, s2]); ujB = UsageJourney("ujB", [s1])
    net = Network.wifi_network("net")
    up1 = mk_up("up1", ujA, [1,2,3,4,5], network=net); up2 = mk_up("up2", ujB, [5,4,3,2,1,7], start_date=datetime(2025,1,1,3), network=net)
    return System("sys", [up1, up2]), j1
sA, j1 = build(1*u.s)
j1.request_duration = SourceValue(2*u.hour)
sB, _ = build(2*u.hour)
a, b = snapshot(sA), snapshot(sB)
for k in a:
    if a[k]!=b[k]: print("DIFF", k)
print(a[('j1','hourly_data_transferred_across_usage_patterns')][1][:4])
print(b[('j1','hourly_data_transferred_across_usage_patterns')][1][:4])
