from spec import *
sp = default_spec()
o = build(sp); system = o["system"]
s0 = snapshot(system)
srv = o["srv1"]
print("server_type before:", srv.server_type)
try:
    srv.server_type = SourceObject("bogus")
except Exception as e: print("raised", type(e).__name__, str(e)[:80])
print("server_type after refused:", srv.server_type, "diffs", compare(s0, snapshot(system))[:3])
srv.server_type = SourceObject("autoscaling")
try:
    srv.fixed_nb_of_instances = Q(5, "")
except Exception as e: print("raised", type(e).__name__, str(e)[:80])
print("fixed after refused:", srv.fixed_nb_of_instances)
# wrong unit
try: srv.ram = Q(5, "W")
except Exception as e: print("raised", type(e).__name__, str(e)[:80])
print(srv.ram)
try: srv.ram = Q(-5, "GB")
except Exception as e: print("raised", type(e).__name__, str(e)[:80])
try: srv.ram = 5
except Exception as e: print("raised", type(e).__name__, str(e)[:80])
try: o["s1"].jobs = [o["srv1"]]
except Exception as e: print("raised", type(e).__name__, str(e)[:80])
try: o["s1"].jobs.append(o["srv1"])
except Exception as e: print("raised", type(e).__name__, str(e)[:80])
print([j.name for j in o["s1"].jobs])
try: o["j1"].server = o["st1"]
except Exception as e: print("raised", type(e).__name__, str(e)[:80])
print(o["j1"].server.name)
print("diffs at end", compare(s0, snapshot(system))[:3])
# C15: failing recomputation
try: srv.base_ram_consumption = Q(500, "GB")
except Exception as e: print("raised", type(e).__name__, str(e)[:80])
print("base ram now", srv.base_ram_consumption, "diffs", [k for k,_ in compare(s0, snapshot(system))][:6])
srv.base_ram_consumption = Q(0, "GB")
print("after revert diffs", [k for k,_ in compare(s0, snapshot(system))][:6])
