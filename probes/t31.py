from base import *
from inspect import signature
from typing import get_origin, get_args, List
from efootprint.core.all_classes_in_order import ALL_EFOOTPRINT_CLASSES
from efootprint.abstract_modeling_classes.modeling_object import ModelingObject
from efootprint.builders.services.video_streaming import VideoStreaming
from efootprint.builders.services.web_application import WebApplication
from efootprint.builders.services.generative_ai_ecologits import GenAIModel
from efootprint.core.hardware.gpu_server import GPUServer
from collections import Counter
def valid_kwargs(cls):
    kw = dict(cls.default_values())
    params = signature(cls.__init__).parameters
    for p, par in params.items():
        if p in ("self", "name") or p in kw: continue
        ann = par.annotation
        if p == "storage": kw[p] = Storage.ssd("st-"+cls.__name__)
        elif p == "server":
            kw[p] = GPUServer.from_defaults("gpu", storage=Storage.ssd("s")) if cls.__name__ == "GenAIModel" else Server.from_defaults("srv", storage=Storage.ssd("s"))
        elif p == "service":
            svc = {"VideoStreamingJob": VideoStreaming, "WebApplicationJob": WebApplication, "GenAIJob": GenAIModel}[cls.__name__]
            kw[p] = svc.from_defaults("svc", server=(GPUServer if svc is GenAIModel else Server).from_defaults("srvx", storage=Storage.ssd("s")))
        elif p == "jobs": kw[p] = []
        elif p == "uj_steps": kw[p] = []
        elif p == "usage_journey": kw[p] = UsageJourney("uj", [])
        elif p == "devices": kw[p] = [Device.laptop()]
        elif p == "network": kw[p] = Network.wifi_network()
        elif p == "country": kw[p] = Countries.FRANCE()
        elif p == "hourly_usage_journey_starts": kw[p] = SourceHourlyValues(create_hourly_usage_df_from_list([1,2,3]))
        elif p == "usage_patterns": kw[p] = []
        elif p == "short_name": kw[p] = "XX"
        elif p == "fixed_nb_of_instances": pass
        else: print("??", cls.__name__, p, ann)
    return kw
res = Counter(); notrefused = []
cells = 0
for cls in ALL_EFOOTPRINT_CLASSES:
    try:
        kw = valid_kwargs(cls); cls("ok", **kw)
    except Exception as e:
        print("valid construction failed", cls.__name__, type(e).__name__, str(e)[:100]); continue
    params = signature(cls.__init__).parameters
    for p, par in params.items():
        if p in ("self", "name"): continue
        ann = par.annotation
        kinds = {}
        base = kw.get(p)
        if isinstance(base, ExplainableQuantity):
            dim = base.value.dimensionality
            wrong = SourceValue(1*u.kg) if dim != (1*u.kg).dimensionality else SourceValue(1*u.W)
            kinds["wrong_dim"] = wrong
            if p not in cls.attributes_that_can_have_negative_values(): kinds["negative"] = SourceValue(-1 * base.value.units)
            kinds["raw_float"] = 3.0; kinds["raw_quantity"] = 3 * base.value.units; kinds["str"] = "x"
        elif p in ("jobs", "uj_steps", "devices", "usage_patterns"):
            kinds["wrong_class_in_list"] = [Storage.ssd("zz")]
        elif isinstance(base, ModelingObject) or p in ("server", "service", "storage", "usage_journey", "network", "country"):
            kinds["wrong_class"] = Device.laptop() if p != "devices" else Storage.ssd("q")
        if p in cls.list_values() or p in cls.conditional_list_values():
            kinds["not_allowed"] = SourceObject("bogus-value")
        for kind, bad in kinds.items():
            cells += 1
            kw2 = valid_kwargs(cls); kw2[p] = bad
            try:
                cls("bad", **kw2); res[(kind, "ACCEPTED")] += 1; notrefused.append((cls.__name__, p, kind))
            except Exception as e:
                res[(kind, type(e).__name__)] += 1
print(cells, "cells"); print(res); print(notrefused)
