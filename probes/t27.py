from spec import *
sp = default_spec()
# avoid sharing to dodge F2
sp["steps"] = {"s1": dict(user_time_spent=(1,"min"), jobs=["j1"]), "s2": dict(user_time_spent=(70,"min"), jobs=["j2"]), "s3": dict(user_time_spent=(0,"min"), jobs=["j3"]), "s4": dict(user_time_spent=(10,"min"), jobs=[])}
sp["journeys"] = {"ujA": dict(uj_steps=["s1","s2"]), "ujB": dict(uj_steps=["s3","s4"]), "ujC": dict(uj_steps=["s4"])}
o = build(sp); system = o["system"]
def totals(system):
    e = system.total_energy_footprint_sum_over_period; f = system.total_fabrication_footprint_sum_over_period
    return {("e", k): float(v.value.to("kg").magnitude) for k, v in e.items()} | {("f", k): float(v.value.to("kg").magnitude) for k, v in f.items()}
def prev(system):
    e = system.previous_total_energy_footprints_sum_over_period; f = system.previous_total_fabrication_footprints_sum_over_period
    return {("e", k): float(v.value.to("kg").magnitude) for k, v in e.items()} | {("f", k): float(v.value.to("kg").magnitude) for k, v in f.items()}
def init(system):
    e = system.initial_total_energy_footprints_sum_over_period; f = system.initial_total_fabrication_footprints_sum_over_period
    return {("e", k): float(v.value.to("kg").magnitude) for k, v in e.items()} | {("f", k): float(v.value.to("kg").magnitude) for k, v in f.items()}
T0 = totals(system)
def step(label, f):
    tb = totals(system)
    f()
    p = prev(system); i = init(system)
    print(label, "prev==before:", all(abs(p[k]-tb[k]) <= 1e-12*max(1,abs(tb[k])) for k in tb), "init==T0:", all(abs(i[k]-T0[k]) <= 1e-12*max(1,abs(T0[k])) for k in T0), "changed:", totals(system) != tb)
step("num", lambda: setattr(o["j1"], "data_transferred", Q(10, "MB")))
step("link", lambda: setattr(o["up1"], "country", o["c2"]))
step("list assign", lambda: setattr(o["s4"], "jobs", [o["j3"]]))
step("append", lambda: o["s4"].jobs.append(o["j3"]))
step("pop", lambda: o["s4"].jobs.pop())
step("group", lambda: ModelingUpdate([[o["srv1"].ram, Q(256, "GB")], [o["d1"].power, Q(20, "W")]]))
step("devices +=", lambda: o["up1"].devices.__iadd__([o["d2"]]))
