from spec import *
from efootprint.abstract_modeling_classes.explainable_object_base_class import ExplainableObject
sp = default_spec()
o = build(sp); system = o["system"]
def attached_values(system, extra=()):
    out = []
    for obj in [system] + system.all_linked_objects + list(extra):
        for k, v in obj.__dict__.items():
            if isinstance(v, dict) and hasattr(v, "modeling_obj_container"):
                for kk, x in v.items(): out.append((obj, k, kk, x))
            elif isinstance(v, ExplainableObject): out.append((obj, k, None, x := v))
    return out
def held(x):
    c = x.modeling_obj_container
    if c is None: return False
    cur = c.__dict__.get(x.attr_name_in_mod_obj_container)
    if cur is x: return True
    if isinstance(cur, dict): return any(v is x for v in cur.values())
    return False
def structural(system, extra=()):
    probs = []
    vals = attached_values(system, extra)
    for obj, k, kk, x in vals:
        if not held(x): probs.append(("value not held?", obj.name, k)); continue
        for a in x.direct_ancestors_with_id:
            if not held(a): probs.append(("ancestor detached", obj.name, k, getattr(kk, "name", None), a.label)); continue
            if not any(c is x for c in a.direct_children_with_id):
                # same-id child present?
                same = [c for c in a.direct_children_with_id if c.modeling_obj_container is not None and c.id == x.id]
                probs.append(("anc->child missing" + (" (same-id sibling present)" if same else ""), obj.name, k, getattr(kk, "name", None), a.id))
        for c in x.direct_children_with_id:
            if not held(c): probs.append(("child detached", obj.name, k, c.label)); continue
            if not any(a is x for a in c.direct_ancestors_with_id):
                same = [a for a in c.direct_ancestors_with_id if a.modeling_obj_container is not None and a.id == x.id]
                probs.append(("child->anc missing" + (" (same-id sibling present)" if same else ""), obj.name, k, getattr(kk, "name", None), c.id))
    return probs
p = structural(system)
from collections import Counter
print(len(p), Counter(x[0] for x in p))
for x in p[:8]: print(x)
print("---- id-level")
def structural_ids(system):
    probs = []
    for obj, k, kk, x in attached_values(system):
        if k in obj.attributes_that_shouldnt_trigger_update_logic: continue
        if not held(x): probs.append(("value not held", obj.name, k)); continue
        for a in x.direct_ancestors_with_id:
            if not held(a): probs.append(("ancestor detached", obj.name, k, a.label)); continue
            if x.id not in [c.id for c in a.direct_children_with_id if c.modeling_obj_container is not None]: probs.append(("anc->child missing", obj.name, k, a.id))
        for c in x.direct_children_with_id:
            if not held(c): probs.append(("child detached", obj.name, k, c.label)); continue
            if x.id not in [a.id for a in c.direct_ancestors_with_id if a.modeling_obj_container is not None]: probs.append(("child->anc missing", obj.name, k, c.id))
    return probs
print(structural_ids(system))
# after some edits (non-sharing-sensitive)
o["srv1"].ram = Q(256, "GB"); o["up1"].country = o["c2"]; o["s4"].jobs = [o["j3"]]; o["d1"].power = Q(20, "W")
print("after edits:", structural_ids(system)[:5])
for obj in system.all_linked_objects: obj.compute_calculated_attributes()
print("after explicit recompute of each object:", Counter(x[0] for x in structural_ids(system)))
