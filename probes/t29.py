import t16
from base import *
from spec import compare
import json
from efootprint.api_utils.system_to_json import system_to_json
from efootprint.api_utils.json_to_system import json_to_system
system = t16.system
s0 = snapshot(system)
for save in (False, True):
    d = json.loads(json.dumps(system_to_json(system, save_calculated_attributes=save)))
    try:
        cls, flat = json_to_system(d)
    except Exception as e:
        import traceback; traceback.print_exc(); continue
    sys2 = list(cls["System"].values())[0]
    print("save", save, "diffs", compare(s0, snapshot(sys2), rtol=1e-9)[:6])
    d2 = json.loads(json.dumps(system_to_json(sys2, save_calculated_attributes=save)))
    print("  re-export equal:", d == d2)
    # ids/classes
    print("  classes", {c: len(v) for c, v in d.items() if isinstance(v, dict)})
    # liveness: edit
    vj2 = [o for o in flat.values() if o.name == "vj"][0]
    vj2.resolution = SourceObject("4K (3840 x 2160)")
    print("  edit on loaded ok:", vj2.data_transferred)
# v9 upgrade
d = json.loads(json.dumps(system_to_json(system, save_calculated_attributes=False)))
d["efootprint_version"] = "9.1.4"; d["Hardware"] = d.pop("Device")
cls, flat = json_to_system(d)
print("v9 load diffs", compare(s0, snapshot(list(cls["System"].values())[0]))[:3])
