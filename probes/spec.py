"""Prototype: plain-data spec -> efootprint System; edits applied to both."""
from base import *
import copy, random, math

def Q(m, unit): return SourceValue(m * u(unit))

def default_spec():
    return {
      "storages": {"st1": dict(storage_capacity=(1,"TB"), data_replication_factor=(3,""), data_storage_duration=(5,"year"), base_storage_need=(0,"TB")),
                   "st2": dict(storage_capacity=(2,"TB"), data_replication_factor=(2,""), data_storage_duration=(3,"hour"), base_storage_need=(1,"TB"))},
      "servers": {"srv1": dict(storage="st1", server_type="autoscaling", ram=(128,"GB"), compute=(24,"cpu_core"), power_usage_effectiveness=(1.2,""), average_carbon_intensity=(100,"g/kWh")),
                  "srv2": dict(storage="st2", server_type="on-premise", ram=(64,"GB"), compute=(8,"cpu_core"), power_usage_effectiveness=(1.5,""), average_carbon_intensity=(300,"g/kWh"))},
      "jobs": {"j1": dict(server="srv1", data_transferred=(150,"kB"), data_stored=(100,"kB"), request_duration=(1,"s"), compute_needed=(0.1,"cpu_core"), ram_needed=(50,"MB")),
               "j2": dict(server="srv2", data_transferred=(2,"MB"), data_stored=(1,"MB"), request_duration=(90,"min"), compute_needed=(1,"cpu_core"), ram_needed=(500,"MB")),
               "j3": dict(server="srv1", data_transferred=(1,"GB"), data_stored=(10,"kB"), request_duration=(5,"min"), compute_needed=(0.5,"cpu_core"), ram_needed=(1,"GB"))},
      "steps": {"s1": dict(user_time_spent=(1,"min"), jobs=["j1"]), "s2": dict(user_time_spent=(70,"min"), jobs=["j2","j1"]), "s3": dict(user_time_spent=(0,"min"), jobs=["j3"]), "s4": dict(user_time_spent=(10,"min"), jobs=[])},
      "journeys": {"ujA": dict(uj_steps=["s1","s2"]), "ujB": dict(uj_steps=["s1","s3","s4"]), "ujC": dict(uj_steps=["s2"])},
      "devices": {"d1": dict(carbon_footprint_fabrication=(156,"kg"), power=(50,"W"), lifespan=(6,"year"), fraction_of_usage_time=(7,"hour/day")),
                  "d2": dict(carbon_footprint_fabrication=(30,"kg"), power=(1,"W"), lifespan=(3,"year"), fraction_of_usage_time=(3.6,"hour/day"))},
      "countries": {"c1": dict(average_carbon_intensity=(85,"g/kWh"), timezone="Europe/Paris"), "c2": dict(average_carbon_intensity=(549,"g/kWh"), timezone="Asia/Kuala_Lumpur")},
      "networks": {"n1": dict(bandwidth_energy_intensity=(0.05,"kWh/GB")), "n2": dict(bandwidth_energy_intensity=(0.12,"kWh/GB"))},
      "ups": {"up1": dict(usage_journey="ujA", devices=["d1"], network="n1", country="c1", start=(2025,1,1,0), starts=[1,2,3,4,5]),
              "up2": dict(usage_journey="ujB", devices=["d1","d2"], network="n1", country="c2", start=(2025,1,1,3), starts=[5,0,3,2,1,7]),
              "up3": dict(usage_journey="ujA", devices=["d2"], network="n2", country="c1", start=(2025,1,2,0), starts=[9,9])},
      "system": ["up1","up2"],
    }

def build(spec):
    o = {}
    for n, s in spec["storages"].items():
        kw = {k: Q(*v) for k, v in s.items()}
        o[n] = Storage.from_defaults(n, **kw)
    for n, s in spec["servers"].items():
        kw = {k: Q(*v) for k, v in s.items() if k not in ("storage","server_type","fixed_nb_of_instances")}
        if s.get("fixed_nb_of_instances") is not None: kw["fixed_nb_of_instances"] = Q(*s["fixed_nb_of_instances"])
        o[n] = Server.from_defaults(n, storage=o[s["storage"]], server_type=SourceObject(s["server_type"]), **kw)
    for n, s in spec["jobs"].items():
        kw = {k: Q(*v) for k, v in s.items() if k != "server"}
        o[n] = Job(n, server=o[s["server"]], **kw)
    for n, s in spec["steps"].items():
        o[n] = UsageJourneyStep(n, Q(*s["user_time_spent"]), [o[j] for j in s["jobs"]])
    for n, s in spec["journeys"].items():
        o[n] = UsageJourney(n, [o[j] for j in s["uj_steps"]])
    for n, s in spec["devices"].items():
        o[n] = Device(n, **{k: Q(*v) for k, v in s.items()})
    for n, s in spec["countries"].items():
        o[n] = Country(n, n.upper(), Q(*s["average_carbon_intensity"]), SourceObject(pytz.timezone(s["timezone"])))
    for n, s in spec["networks"].items():
        o[n] = Network(n, Q(*s["bandwidth_energy_intensity"]))
    for n, s in spec["ups"].items():
        if n not in spec["system"]: continue
        o[n] = UsagePattern(n, o[s["usage_journey"]], [o[d] for d in s["devices"]], o[s["network"]], o[s["country"]],
                 SourceHourlyValues(create_hourly_usage_df_from_list(s["starts"], datetime(*s["start"]))))
    o["system"] = System("system", [o[n] for n in spec["system"]])
    return o

def compare(a, b, rtol=1e-9):
    diffs = []
    for k in sorted(set(a) | set(b)):
        if k not in a or k not in b: diffs.append((k, "missing")); continue
        if not eq(a[k], b[k], rtol): diffs.append((k, "value"))
    return diffs

def eq(x, y, rtol):
    if isinstance(x, dict) and isinstance(y, dict):
        return set(x) == set(y) and all(eq(x[k], y[k], rtol) for k in x)
    if x is None or y is None:
        # Empty vs all-zero series considered different here (report)
        return x is None and y is None
    if isinstance(x, tuple) and isinstance(y, tuple):
        if x[0] != y[0]: return False
        if isinstance(x[1], list):
            dx, dy = dict(x[1]), dict(y[1])
            keys = set(dx) | set(dy)
            scale = max([abs(v) for v in dx.values()] + [abs(v) for v in dy.values()] + [0])
            return all(abs(dx.get(k, 0.0) - dy.get(k, 0.0)) <= rtol * scale + 1e-300 for k in keys)
        return abs(x[1] - y[1]) <= rtol * max(abs(x[1]), abs(y[1])) + 1e-300
    return x == y

def mk_up_from_spec(o, spec, n):
    s = spec["ups"][n]
    o[n] = UsagePattern(n, o[s["usage_journey"]], [o[d] for d in s["devices"]], o[s["network"]], o[s["country"]],
                 SourceHourlyValues(create_hourly_usage_df_from_list(s["starts"], datetime(*s["start"]))))
    return o[n]
