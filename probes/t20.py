from base import *
import random
# storage float cancellation: short storage duration, no deleting job
hits = 0
for seed in range(300):
    rng = random.Random(seed)
    st = Storage.ssd("st", data_storage_duration=SourceValue(rng.choice([1,2,3,5])*u.hour), base_storage_need=SourceValue(0*u.TB), data_replication_factor=SourceValue(rng.choice([1,2,3])*u.dimensionless))
    srv = mk_server("srv", st)
    j = mk_job("j", srv, data_stored=SourceValue(rng.choice([0.1, 0.3, 1.7, 100, 33.3])*u.kB))
    uj = UsageJourney("uj", [UsageJourneyStep("s", SourceValue(1*u.min), [j])])
    up = mk_up("up", uj, [rng.randint(0, 1000) for _ in range(rng.randint(3, 30))])
    try: System("sys", [up])
    except Exception as e:
        hits += 1
        if hits <= 2: print(seed, type(e).__name__, str(e)[:160])
print("negative-storage rejections without deleting job:", hits, "/ 300")
# two systems
srv = mk_server("srvA"); j = mk_job("jA", srv); s = UsageJourneyStep("sA", SourceValue(1*u.min), [j]); uj = UsageJourney("ujA", [s])
up1 = mk_up("upA", uj, [1,2]); sys1 = System("sys1", [up1])
srv2 = mk_server("srvB"); j2 = mk_job("jB", srv2); s2 = UsageJourneyStep("sB", SourceValue(1*u.min), [j2]); uj2 = UsageJourney("ujB", [s2])
up2 = mk_up("upB", uj2, [1,2]); sys2 = System("sys2", [up2])
try: s2.jobs.append(j)
except Exception as e: print("cross-system append:", type(e).__name__, str(e)[:100])
print("jA systems:", [x.name for x in j.systems], "sB jobs:", [x.name for x in s2.jobs])
