import os, json, time, sys
from spec import *
import hypothesis
from hypothesis import settings, strategies as st, Phase, HealthCheck
from hypothesis.stateful import RuleBasedStateMachine, rule, initialize, invariant, precondition, run_state_machine_as_test
import uuid as _uuid, random as _random

NUM = {"storages": ["storage_capacity","data_replication_factor","base_storage_need"],
       "servers": ["ram","compute","power_usage_effectiveness","average_carbon_intensity"],
       "jobs": ["data_transferred","data_stored","compute_needed","ram_needed"],
       "steps": ["user_time_spent"], "devices": ["carbon_footprint_fabrication","power","lifespan","fraction_of_usage_time"],
       "countries": ["average_carbon_intensity"], "networks": ["bandwidth_energy_intensity"]}
STATS = {"cases": 0, "steps": 0, "nontrivial": set()}
class M(RuleBasedStateMachine):
    @initialize(idseed=st.integers(0, 2**32))
    def init(self, idseed):
        rng = _random.Random(idseed)
        _uuid.uuid4 = lambda: _uuid.UUID(int=rng.getrandbits(128), version=4)
        self.sp = default_spec()
        # no shared jobs (exclusion population)
        self.sp["steps"] = {"s1": dict(user_time_spent=(1,"min"), jobs=["j1"]), "s2": dict(user_time_spent=(70,"min"), jobs=["j2"]), "s3": dict(user_time_spent=(0,"min"), jobs=["j3"]), "s4": dict(user_time_spent=(10,"min"), jobs=[])}
        self.sp["journeys"] = {"ujA": dict(uj_steps=["s1","s2"]), "ujB": dict(uj_steps=["s3","s4"]), "ujC": dict(uj_steps=["s4"])}
        self.o = build(self.sp); self.hist = [("idseed", idseed)]; self.changed = False
        STATS["cases"] += 1
    @rule(data=st.data())
    def num(self, data):
        cat = data.draw(st.sampled_from(sorted(NUM))); n = data.draw(st.sampled_from(sorted(self.sp[cat]))); a = data.draw(st.sampled_from(NUM[cat]))
        f = data.draw(st.sampled_from([0.5, 2, 3, 10]))
        m, unit = self.sp[cat][n][a]
        self.edit(("num", cat, n, a, (m * f, unit)))
    @rule(data=st.data())
    def link(self, data):
        up = data.draw(st.sampled_from(self.sp["system"])); a = data.draw(st.sampled_from(["network", "country"]))
        tgt = data.draw(st.sampled_from(sorted(self.sp["networks" if a == "network" else "countries"])))
        self.edit(("link", "ups", up, a, tgt))
    def edit(self, e):
        self.hist.append(e); STATS["steps"] += 1
        before = snapshot(self.o["system"])
        _, cat, n, a, val = e
        if e[0] == "num": setattr(self.o[n], a, Q(*val))
        else: setattr(self.o[n], a, self.o[val])
        self.sp[cat][n][a] = val
        live = snapshot(self.o["system"])
        if compare(before, live): self.changed = True
        fresh = snapshot(build(copy.deepcopy(self.sp))["system"])
        d = compare(live, fresh)
        if os.environ.get("INJECT") and e[0] == "num" and a == "power" and len(self.hist) > 3: d = [("injected", "x")]
        if d:
            json.dump({"hist": self.hist, "diff": [str(k) for k, _ in d][:5]}, open("/tmp/play/last_fail.json", "w"))
            raise AssertionError(f"C01 violated: {d[:3]}")
    def teardown(self):
        if getattr(self, "changed", False): STATS["nontrivial"].add(json.dumps(self.hist))
t = time.time()
try:
    run_state_machine_as_test(hypothesis.seed(int(os.environ.get("VERIF_SEED", "1")))(M), settings=settings(max_examples=int(sys.argv[1]), stateful_step_count=6, deadline=None, database=None, report_multiple_bugs=False, suppress_health_check=list(HealthCheck), phases=[Phase.generate] + ([Phase.shrink] if os.environ.get("SHRINK") else [])))
    print("held")
except AssertionError as e:
    print("FAILED", str(e)[:100]); print(open("/tmp/play/last_fail.json").read()[:600])
print("cases", STATS["cases"], "steps", STATS["steps"], "nontrivial", len(STATS["nontrivial"]), "wall", round(time.time() - t, 1))
