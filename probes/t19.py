from base import *
import math
bad = []
for h in range(1, 200):
    for m, unit in ((h*60, "min"), (h*3600, "s"), (h/24, "day"), (h*3600*1000, "ms")):
        v = (m*u(unit)).to(u.hour).magnitude
        if math.ceil(v) != h or math.floor(v) != h: bad.append((h, unit, v))
print(len(bad), bad[:10])
# storage duration in years -> hours
for y in (1,2,3,5): print(y, (y*u.year).to(u.hour).magnitude)
