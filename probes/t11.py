from spec import *
sp = default_spec()
o = build(sp); system = o["system"]
def links_ok(system, o):
    # forward vs reverse
    problems = []
    allobjs = [v for k, v in o.items()]
    for obj in allobjs:
        fwd_users = set()
        for other in allobjs:
            for k, v in other.__dict__.items():
                if k == "contextual_modeling_obj_containers": continue
                if isinstance(v, list) and not isinstance(v, str):
                    if any(getattr(x, "id", None) == obj.id for x in v if hasattr(x, "_value") ): fwd_users.add(other.id)
                elif hasattr(v, "_value") and v._value is obj: fwd_users.add(other.id)
        rev = set(c.id for c in obj.modeling_obj_containers)
        if fwd_users != rev: problems.append((obj.name, sorted(fwd_users), sorted(rev)))
    return problems
print("initial", links_ok(system, o))
s2 = o["s2"]
def names(l): return [x.name for x in l]
def tryop(label, f):
    try: f()
    except Exception as e: print(label, "RAISED", type(e).__name__, str(e)[:100])
    print(label, names(s2.jobs), "problems:", links_ok(system, o)[:3])
tryop("append j3", lambda: s2.jobs.append(o["j3"]))
tryop("insert 0 j3", lambda: s2.jobs.insert(0, o["j3"]))
tryop("pop", lambda: s2.jobs.pop())
tryop("remove j3 (raw)", lambda: s2.jobs.remove(o["j3"]))
tryop("remove absent", lambda: s2.jobs.remove(o["j3"]))
tryop("+= []", lambda: s2.jobs.__iadd__([]))
tryop("extend []", lambda: s2.jobs.extend([]))
tryop("*= 2", lambda: s2.jobs.__imul__(2))
tryop("*= 1", lambda: s2.jobs.__imul__(1))
tryop("del [0]", lambda: s2.jobs.__delitem__(0))
tryop("setitem 0 same", lambda: s2.jobs.__setitem__(0, s2.jobs[0]))
tryop("setitem 0 j3", lambda: s2.jobs.__setitem__(0, o["j3"]))
tryop("clear", lambda: s2.jobs.clear())
tryop("clear again", lambda: s2.jobs.clear())
tryop("assign same list", lambda: setattr(s2, "jobs", list(s2.jobs)))
tryop("+= [j1]", lambda: s2.jobs.__iadd__([o["j1"]]))
sp["steps"]["s2"]["jobs"] = names(s2.jobs)
print(compare(snapshot(system), snapshot(build(copy.deepcopy(sp))["system"]))[:4])
