from base import *
srv = mk_server("srv")
j = mk_job("j", srv)
s = UsageJourneyStep("s", SourceValue(1*u.min), [j])
uj0 = UsageJourney("uj0", [])
uj = UsageJourney("uj", [s])
try:
    up = mk_up("up", uj0, [1,2]); system = System("sys", [up]); print("empty steps OK", system.total_footprint)
except Exception as e: print("empty steps:", type(e).__name__, e)
try:
    up = UsagePattern("up2", uj, [], Network.wifi_network(), Countries.FRANCE(), SourceHourlyValues(create_hourly_usage_df_from_list([1,2])))
    system = System("sys2", [up]); print("empty devices OK")
except Exception as e: print("empty devices:", type(e).__name__, e)
