from spec import *
sp = default_spec()
o = build(sp); system = o["system"]
s0 = snapshot(system)
srv = o["srv1"]
old = srv.base_ram_consumption
try: srv.base_ram_consumption = Q(500, "GB")
except Exception as e: print("raised", type(e).__name__, str(e)[:80])
print("base ram now", srv.base_ram_consumption, "diffs", [k for k,_ in compare(s0, snapshot(system))][:6])
srv.base_ram_consumption = Q(0, "GB")
print("after revert diffs", [k for k,_ in compare(s0, snapshot(system))][:6])
# then an ordinary edit vs fresh
srv.ram = Q(256, "GB"); sp["servers"]["srv1"]["ram"] = (256, "GB")
print("vs fresh", compare(snapshot(system), snapshot(build(copy.deepcopy(sp))["system"]))[:4])
# on-premise fixed nb failure
srv2 = o["srv2"]
try: srv2.fixed_nb_of_instances = Q(0, "")
except Exception as e: print("raised", type(e).__name__, str(e)[:80])
print(srv2.fixed_nb_of_instances, [k for k,_ in compare(snapshot(system), snapshot(build(copy.deepcopy(sp))["system"]))][:6])
srv2.fixed_nb_of_instances = EmptyExplainableObject()
print("after revert", compare(snapshot(system), snapshot(build(copy.deepcopy(sp))["system"]))[:4])
# storage negative
j = o["j2"]
try: j.data_stored = Q(-1, "TB")
except Exception as e: print("raised", type(e).__name__, str(e)[:80])
print([k for k,_ in compare(snapshot(system), snapshot(build(copy.deepcopy(sp))["system"]))][:8])
j.data_stored = Q(1, "MB")
print("after revert", compare(snapshot(system), snapshot(build(copy.deepcopy(sp))["system"]))[:4])
