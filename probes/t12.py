from spec import *
import json
from efootprint.api_utils.system_to_json import system_to_json
from efootprint.api_utils.json_to_system import json_to_system
sp = default_spec()
o = build(sp); system = o["system"]
s0 = snapshot(system)
for save in (False, True):
    d = system_to_json(system, save_calculated_attributes=save)
    d = json.loads(json.dumps(d))
    cls, flat = json_to_system(d)
    sys2 = list(cls["System"].values())[0]
    s1 = snapshot(sys2)
    print("save", save, "roundtrip diffs:", compare(s0, s1, rtol=1e-6)[:5])
    d2 = json.loads(json.dumps(system_to_json(sys2, save_calculated_attributes=save)))
    print(" json idempotent:", d2 == d)
    if d2 != d:
        for c in d:
            if d[c] != d2.get(c):
                if isinstance(d[c], dict):
                    for k in d[c]:
                        if d[c][k] != d2[c].get(k):
                            for a in d[c][k]:
                                if d[c][k][a] != d2[c][k].get(a): print("  ", c, k, a, str(d[c][k][a])[:150], "||", str(d2[c][k].get(a))[:150]); break
                            break
# dangling objects (ujC, up3 n2) not exported? 
print(sorted((c, len(v)) for c, v in d.items() if isinstance(v, dict)))
# C18 fixed point
for obj in system.all_linked_objects + [system]:
    obj.compute_calculated_attributes()
print("fixed point diffs:", compare(s0, snapshot(system))[:5])
