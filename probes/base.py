import logging, warnings
warnings.filterwarnings("ignore")
from datetime import datetime
from efootprint.logger import logger
logger.setLevel(logging.ERROR)
from efootprint.abstract_modeling_classes.source_objects import SourceValue, SourceHourlyValues, SourceObject
from efootprint.abstract_modeling_classes.explainable_objects import EmptyExplainableObject, ExplainableQuantity, ExplainableHourlyQuantities
from efootprint.abstract_modeling_classes.modeling_update import ModelingUpdate
from efootprint.core.hardware.device import Device
from efootprint.core.usage.job import Job
from efootprint.core.usage.usage_journey import UsageJourney
from efootprint.core.usage.usage_journey_step import UsageJourneyStep
from efootprint.core.hardware.server import Server, ServerTypes
from efootprint.core.hardware.storage import Storage
from efootprint.core.usage.usage_pattern import UsagePattern
from efootprint.core.hardware.network import Network
from efootprint.core.system import System
from efootprint.core.country import Country
from efootprint.constants.countries import Countries, tz
from efootprint.constants.units import u
from efootprint.builders.time_builders import create_hourly_usage_df_from_list
import pytz

def mk_storage(name="st", **kw):
    return Storage.ssd(name, **kw)
def mk_server(name="srv", storage=None, **kw):
    return Server.from_defaults(name, storage=storage or mk_storage(name+"-st"), **kw)
def mk_job(name, server, **kw):
    return Job.from_defaults(name, server=server, **kw)
def mk_up(name, uj, starts, start_date=datetime(2025,1,1), country=None, network=None, devices=None):
    return UsagePattern(name, uj, devices or [Device.laptop()], network or Network.wifi_network(name+"-net"),
        country or Countries.FRANCE(), SourceHourlyValues(create_hourly_usage_df_from_list(starts, start_date)))

def snapshot(system):
    out = {}
    for obj in [system] + system.all_linked_objects:
        for attr in obj.calculated_attributes:
            v = getattr(obj, attr)
            out[(obj.name, attr)] = ser(v)
    return out
def ser(v):
    if isinstance(v, dict):
        return {k.name if hasattr(k,'name') else k: ser(x) for k, x in v.items()}
    if isinstance(v, EmptyExplainableObject):
        return None
    if isinstance(v, ExplainableHourlyQuantities):
        s = v.value["value"].pint.to_base_units()
        return (str(s.pint.units), [(str(i), float(x)) for i, x in zip(v.value.index, s.values._data)])
    if isinstance(v, ExplainableQuantity):
        q = v.value.to_base_units()
        return (str(q.units), float(q.magnitude))
    return repr(v.value)

import uuid as _uuid, random as _random, os as _os
_idrng = _random.Random(int(_os.environ.get("IDSEED", "0")))
def _uuid4():
    return _uuid.UUID(int=_idrng.getrandbits(128), version=4)
_uuid.uuid4 = _uuid4
