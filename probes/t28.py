from spec import *
sp = default_spec(); sp["system"] = ["up1", "up2", "up3"]
o = build(sp); system = o["system"]
snap = snapshot(system)
def series(name, attr):
    v = snap[(name, attr)]
    return dict(v[1]) if v else {}
tot = series("system", "total_footprint")
acc = {}
comp = [("srv1",1),("srv2",1),("st1",1),("st2",1)]
for n in ["srv1","srv2","st1","st2","up1","up2","up3"]:
    for a in ("energy_footprint", "instances_fabrication_footprint"):
        for k, v in series(n, a).items(): acc[k] = acc.get(k, 0.0) + v
for n in ["n1","n2"]:
    for k, v in series(n, "energy_footprint").items(): acc[k] = acc.get(k, 0.0) + v
print(max(abs(tot.get(k,0)-acc.get(k,0)) for k in set(tot)|set(acc)), len(tot), len(acc))
# C12: PUE scaling
sp2 = copy.deepcopy(sp); sp2["servers"]["srv1"]["power_usage_effectiveness"] = (1.2*3, "")
s2 = snapshot(build(sp2)["system"])
for key in sorted(snap):
    a, b = snap[key], s2[key]
    if a != b and a and b and isinstance(a[1], list):
        ra = [y/x for (_, x), (_, y) in zip(a[1], b[1]) if x]
        print(key, min(ra), max(ra))
