#!/bin/bash
# offline setup: the checks need hypothesis in /venv beside the repository's own dependencies
set -e
/venv/bin/python -c "import hypothesis" 2>/dev/null || \
  /venv/bin/pip install --no-index --find-links /opt/veriftools/wheels hypothesis
/venv/bin/python -c "import hypothesis, sys; print('hypothesis', hypothesis.__version__)"
