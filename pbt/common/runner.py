"""Sharded runner, statistics, known-findings protocol, evidence and replay files."""
import hashlib
import json
import multiprocessing
import os
import sys
import time
import traceback
from collections import Counter

from . import env

VERIF = env.VERIF
KNOWN_FINDINGS_FILE = os.path.join(VERIF, "known_findings.jsonl")
OUT = os.environ.get("VERIF_OUT", VERIF)     # where evidence/ and replays/ go (mutant runs use a scratch directory)
NSHARDS = int(os.environ.get("VERIF_SHARDS", "16"))


def jdump(x):
    return json.dumps(x, sort_keys=True, default=_default)


def _default(o):
    try:
        import numpy as np
        if isinstance(o, (np.integer,)):
            return int(o)
        if isinstance(o, (np.floating,)):
            return float(o)
        if isinstance(o, np.ndarray):
            return o.tolist()
    except Exception:
        pass
    if isinstance(o, (set, frozenset, tuple)):
        return list(o)
    return repr(o)


def hash_of(x):
    return hashlib.sha1(jdump(x).encode()).hexdigest()[:16]


class Found(Exception):
    """Raised (shrink mode only) to make Hypothesis shrink a violating case."""

    def __init__(self, violation):
        super().__init__(violation.get("detail", ""))
        self.violation = violation


def load_known_findings(prop_id):
    out = []
    if os.path.exists(KNOWN_FINDINGS_FILE):
        with open(KNOWN_FINDINGS_FILE) as f:
            for line in f:
                line = line.strip()
                if not line or line.startswith("#"):
                    continue
                rec = json.loads(line)
                if rec.get("property") == prop_id:
                    out.append(rec)
    return out


def signature_matches(rec_sig, sig):
    """Exact match on every key of the record; a key 'x__in' lists the specific inputs the finding is limited to."""
    for k, v in rec_sig.items():
        if k.endswith("__in"):
            if sig.get(k[:-4]) not in v:
                return False
        elif sig.get(k) != v:
            return False
    return True


class Ctx:
    """Per-shard context handed to a property: counters, case registry, violation sink, budget."""

    def __init__(self, prop_id, tier, seed, shard, budget, deadline, shrink_mode=False):
        self.prop_id = prop_id
        self.tier = tier
        self.seed = seed
        self.shard = shard
        self.budget = budget
        self.deadline = deadline
        self.shrink_mode = shrink_mode
        self.evaluations = 0
        self.labels = Counter()
        self.nontrivial = set()
        self.samples = []
        self.violations = {}     # bucket key -> {"signature":…, "cases":[…]}
        self.known_hits = Counter()
        self.skipped = 0
        self.known = [r for r in load_known_findings(prop_id) if r.get("status") == "known"]
        self.extra = {}
        self.recent = []         # the last cases run in this process (shrinking checks only)
        self.first_found = None

    def expired(self):
        if time.time() > self.deadline:
            self.skipped += 1
            return True
        return False

    def label(self, *names):
        for n in names:
            self.labels[n] += 1

    def case(self, case, nontrivial, labels=(), sample=None):
        """Register one generated case."""
        self.evaluations += 1
        self.label(*labels)
        if nontrivial:
            h = hash_of(case)
            if h not in self.nontrivial:
                self.nontrivial.add(h)
                if len(self.samples) < 3:
                    self.samples.append(sample if sample is not None else case)

    def violation(self, kind, case, detail, signature=None):
        """Report a failing case. Returns True when it matched a known finding (counted, not reported)."""
        sig = dict(signature or {})
        sig.setdefault("kind", kind)
        for rec in self.known:
            if signature_matches(rec["signature"], sig):
                self.known_hits[rec["id"]] += 1
                return True
        v = {"property": self.prop_id, "kind": kind, "signature": sig, "detail": detail, "case": case}
        if self.shrink_mode:
            if self.first_found is None:
                self.first_found = (v, list(self.recent[:-1]))
            raise Found(v)
        key = jdump(sig)
        b = self.violations.setdefault(key, {"signature": sig, "count": 0, "cases": []})
        b["count"] += 1
        b["cases"].append(v)
        b["cases"].sort(key=lambda x: len(jdump(x["case"])))
        del b["cases"][2:]
        return False

    def result(self):
        return {"shard": self.shard, "evaluations": self.evaluations, "labels": dict(self.labels),
                "nontrivial": sorted(self.nontrivial), "samples": self.samples,
                "violations": self.violations, "known_hits": dict(self.known_hits), "skipped": self.skipped,
                "extra": self.extra}


CASE_CPU_S = 300


def library_frame(ex):
    """'file:function' of the innermost frame of the traceback that lies in the efootprint package (None if none)."""
    root = os.path.realpath(os.path.join(env.REPO, "efootprint")) + os.sep
    found = None
    for fs in traceback.extract_tb(ex.__traceback__):
        f = os.path.realpath(fs.filename)
        if f.startswith(root):
            found = "%s:%s" % (f[len(root):], fs.name)
    return found


def run_given(ctx, strategy, body, max_examples, shrink=False):
    """Drive ``body(case)`` with Hypothesis under the determinism rules of this framework."""
    from hypothesis import given, settings, seed, HealthCheck, Phase
    from hypothesis.errors import HypothesisException
    from . import machine as M
    ctx.shrink_mode = shrink
    phases = [Phase.generate, Phase.shrink] if shrink else [Phase.generate]

    @seed(ctx.seed)
    @settings(max_examples=max_examples, database=None, deadline=None, phases=phases, report_multiple_bugs=False,
              suppress_health_check=[HealthCheck.too_slow, HealthCheck.data_too_large], print_blob=False)
    @given(strategy)
    def test(case):
        if ctx.expired():
            return
        if shrink:
            ctx.recent.append(case)
            del ctx.recent[:-40]
            body(case)
            return
        try:
            # per-case guard: a case costs seconds of CPU; a library call that a check did not wrap in its own 90 s
            # watchdog and that never returns would otherwise stall the shard until the hard deadline (exit 2)
            with M.watchdog(CASE_CPU_S):
                body(case)
        except HypothesisException:
            raise
        except M.Hang as ex:
            where = library_frame(ex)
            if where is None:
                raise RuntimeError("a case used more than %d s of CPU outside the library" % CASE_CPU_S) from ex
            ctx.violation("hang_in_library", case,
                          "the case did not finish within %d s of CPU time; the library was executing %s\n%s" % (
                              CASE_CPU_S, where, traceback.format_exc(limit=-8)),
                          {"kind": "hang_in_library", "where": where})
        except Exception as ex:
            # The system-level checks only build models through the public constructors, apply the operations their
            # property quantifies over and read public attributes. When the library raises while the check *reads* the
            # model (the checks handle what the operations themselves may raise), the model is no longer the one the
            # property describes: a violation with the failing case, not a harness error. An exception that does not
            # come out of the library is a harness bug and stays one (exit 2).
            where = library_frame(ex)
            if where is None:
                raise
            ctx.violation("crash_in_library", case,
                          "the library raised %s: %s while the check was observing the model (%s)\n%s" % (
                              type(ex).__name__, str(ex)[:200], where, traceback.format_exc(limit=-6)),
                          {"kind": "crash_in_library", "exc": type(ex).__name__, "where": where})

    from hypothesis.errors import FlakyFailure
    try:
        test()
    except Found as f:
        ctx.shrink_mode = False
        v = f.violation
        ctx.violation(v["kind"], v["case"], v["detail"], v["signature"])
    except FlakyFailure:
        # the oracle failed on an input and passed when Hypothesis ran the very same input again: the code under test
        # remembers something between calls. The first failure is a real observation and is reported as such, with
        # the cases that ran before it in this process so that the replay can recreate the state.
        if ctx.first_found is None:
            raise
        ctx.shrink_mode = False
        v, prelude = ctx.first_found
        b = ctx.violation(v["kind"], v["case"], v["detail"] + " [the same input gave another outcome when it was "
                          "run again in the same process: the result depends on what was computed before]",
                          v["signature"])
        for bucket in ctx.violations.values():
            for c in bucket["cases"]:
                if c["case"] is v["case"]:
                    c["prelude"] = prelude
    finally:
        ctx.shrink_mode = False


def _shard_entry(args):
    prop_mod_name, tier, seed, shard, budget, deadline = args
    try:
        import importlib
        mod = importlib.import_module(prop_mod_name)
        ctx = Ctx(mod.ID, tier, seed * 1000 + shard, shard, budget, deadline)
        mod.run_shard(ctx)
        return ctx.result()
    except BaseException:
        return {"shard": shard, "error": traceback.format_exc()}


def _proc_main(a, path):
    import pickle
    r = _shard_entry(a)
    with open(path + ".tmp", "wb") as f:
        pickle.dump(r, f)
    os.replace(path + ".tmp", path)


def _run_processes(args, hard_deadline):
    """One forked process per shard; a shard that dies or hangs is a harness error, never a hang of the check."""
    import pickle
    import shutil
    import tempfile
    mpc = multiprocessing.get_context("fork")
    work = tempfile.mkdtemp(prefix="verif-shards-")
    procs = []
    try:
        for a in args:
            path = os.path.join(work, "shard%d.pkl" % a[3])
            p = mpc.Process(target=_proc_main, args=(a, path))
            p.start()
            procs.append((a, p, path))
        results = []
        for a, p, path in procs:
            p.join(max(1.0, hard_deadline - time.time()))
            if p.is_alive():
                p.kill()
                p.join()
                results.append({"shard": a[3], "error": "shard did not finish before the hard deadline (killed)"})
            elif os.path.exists(path):
                with open(path, "rb") as f:
                    results.append(pickle.load(f))
            else:
                results.append({"shard": a[3], "error": "shard process exited with code %s without a result"
                                                        % p.exitcode})
        return results
    finally:
        for _, p, _ in procs:
            if p.is_alive():
                p.kill()
        shutil.rmtree(work, ignore_errors=True)


def ddmin(items, still_fails, budget):
    """Delta debugging on a list: smallest sub-list (order kept) for which still_fails() holds, within budget."""
    n = 2
    items = list(items)
    calls = [0]

    def test(c):
        if calls[0] >= budget:
            return False
        calls[0] += 1
        try:
            return still_fails(c)
        except Exception:
            return False

    while len(items) >= 2 and calls[0] < budget:
        chunk = max(1, len(items) // n)
        subsets = [items[i:i + chunk] for i in range(0, len(items), chunk)]
        reduced = False
        for i in range(len(subsets)):
            comp = [x for j, s in enumerate(subsets) if j != i for x in s]
            if comp and test(comp):
                items = comp
                n = max(n - 1, 2)
                reduced = True
                break
        if not reduced:
            if chunk == 1:
                break
            n = min(n * 2, len(items))
    if len(items) == 1 and calls[0] < budget and test([]):
        items = []
    return items


def write_replay(prop_id, violation):
    d = os.path.join(OUT, "replays", prop_id)
    os.makedirs(d, exist_ok=True)
    path = os.path.join(d, hash_of(violation["case"]) + ".json")
    with open(path, "w") as f:
        f.write(json.dumps(violation, indent=1, sort_keys=True, default=_default))
    return os.path.relpath(path, VERIF) if OUT == VERIF else path


def replay_corpus(mod, ctx_factory):
    """Replay committed cases. Returns (lines, violations, n)."""
    lines, viols = [], []
    d = os.path.join(VERIF, "corpus", mod.ID)
    known = {r["id"]: r for r in load_known_findings(mod.ID)}
    files = sorted(os.listdir(d)) if os.path.isdir(d) else []
    n = 0
    for fn in files:
        if not fn.endswith(".json"):
            continue
        n += 1
        path = os.path.join(d, fn)
        with open(path) as f:
            rec = json.load(f)
        ctx = ctx_factory()
        ctx.known = []      # see everything, then classify here
        try:
            mod.replay(rec["case"], ctx)
        except Exception:
            ctx.violation("replay_crash", rec["case"], traceback.format_exc(limit=6), {"kind": "replay_crash"})
        found = [c for b in ctx.violations.values() for c in b["cases"]]
        expect = rec.get("expect", "pass")
        if expect == "pass":
            for v in found:
                viols.append((v, os.path.relpath(path, VERIF)))
        else:
            kf = known.get(expect.split(":", 1)[1])
            if kf is None or kf.get("status") != "known":
                for v in found:
                    viols.append((v, os.path.relpath(path, VERIF)))
                continue
            matched = [v for v in found if signature_matches(kf["signature"], v["signature"])]
            others = [v for v in found if not signature_matches(kf["signature"], v["signature"])]
            if matched:
                lines.append(kf["line"])
            else:
                lines.append("NOTE: known finding %s no longer reproduces with %s" % (kf["id"], fn))
            for v in others:
                viols.append((v, os.path.relpath(path, VERIF)))
    return lines, viols, n


def main_check(mod, tier, replay_path=None):
    t0 = time.time()
    seed = env.verif_seed()
    budget = dict(mod.BUDGET[tier])
    wall_guard = budget.get("wall_guard_s", 900 if tier == "quick" else 5400)
    deadline = t0 + wall_guard

    def ctx_factory():
        return Ctx(mod.ID, tier, seed, -1, budget, time.time() + 3600)

    if replay_path is not None:
        with open(replay_path) as f:
            rec = json.load(f)
        for pc in rec.get("prelude", []):
            # cases that ran in the same process before the failing one (state kept by the code under test)
            try:
                mod.replay(pc, ctx_factory())
            except Exception:
                pass
        ctx = ctx_factory()
        try:
            mod.replay(rec["case"], ctx)
        except Exception as ex:
            where = library_frame(ex)
            if where is None:
                raise
            ctx.violation("crash_in_library", rec["case"], "the library raised %s: %s while the check was observing "
                          "the model (%s)" % (type(ex).__name__, str(ex)[:200], where),
                          {"kind": "crash_in_library", "exc": type(ex).__name__, "where": where})
        found = [c for b in ctx.violations.values() for c in b["cases"]]
        for kid, n in ctx.known_hits.items():
            rec_k = [r for r in load_known_findings(mod.ID) if r["id"] == kid][0]
            print(rec_k["line"])
        if found:
            for v in found:
                print("  %s: %s" % (v["kind"], str(v["detail"])[:600]))
            print("VIOLATION property=%s replay=%s" % (mod.ID, replay_path))
            return 1
        print("replay of %s: property held" % replay_path)
        return 0

    # 1. committed corpus (regressions of fixed findings, repros of known ones)
    lines, corpus_viols, n_corpus = replay_corpus(mod, ctx_factory)
    for fixed in [r for r in load_known_findings(mod.ID) if r.get("status") == "fixed"]:
        pass  # fixed entries suppress nothing and print nothing
    # 2. generated search, sharded
    nshards = min(NSHARDS, budget.get("shards", NSHARDS))
    args = [(mod.__name__, tier, seed, i, budget, deadline) for i in range(nshards)]
    if nshards == 1 or os.environ.get("VERIF_INPROC"):
        results = [_shard_entry(a) for a in args]
    else:
        results = _run_processes(args, deadline + 900)
    errors = [r for r in results if "error" in r]
    if errors:
        for r in errors[:3]:
            sys.stderr.write("HARNESS ERROR in shard %s:\n%s\n" % (r["shard"], r["error"]))
        return 2
    results.sort(key=lambda r: r["shard"])
    evaluations = sum(r["evaluations"] for r in results)
    labels = Counter()
    known_hits = Counter()
    nontrivial = set()
    samples = []
    buckets = {}
    skipped = 0
    extra = {}
    for r in results:
        labels.update(r["labels"])
        known_hits.update(r["known_hits"])
        nontrivial.update(r["nontrivial"])
        skipped += r["skipped"]
        for s in r["samples"]:
            if len(samples) < 4:
                samples.append(s)
        for k, b in r["violations"].items():
            t = buckets.setdefault(k, {"signature": b["signature"], "count": 0, "cases": []})
            t["count"] += b["count"]
            t["cases"].extend(b["cases"])
        for k, v in r.get("extra", {}).items():
            if isinstance(v, (int, float)):
                extra[k] = extra.get(k, 0) + v
            else:
                extra.setdefault(k, v)

    # 3. report
    for kid in sorted(set(l for l in lines)):
        print(kid)
    printed = set(lines)
    for rec in load_known_findings(mod.ID):
        if rec.get("status") == "known" and rec["line"] not in printed and known_hits.get(rec["id"]):
            print(rec["line"])
            printed.add(rec["line"])
    replay_paths = []
    for v, path in corpus_viols:
        print("  corpus case %s fails: %s: %s" % (path, v["kind"], str(v["detail"])[:400]))
        print("VIOLATION property=%s replay=%s" % (mod.ID, path))
        replay_paths.append(path)
    min_budget = budget.get("minimise_budget", 40)
    for k, b in sorted(buckets.items(), key=lambda kv: -kv[1]["count"])[:8]:
        b["cases"].sort(key=lambda x: len(jdump(x["case"])))
        v = b["cases"][0]
        if hasattr(mod, "minimise") and min_budget and time.time() < deadline + 600:
            try:
                v = mod.minimise(v, min_budget, ctx_factory) or v
            except Exception:
                sys.stderr.write("minimiser failed (keeping the unminimised case):\n" + traceback.format_exc())
        path = write_replay(mod.ID, v)
        print("  %s x%d: %s" % (v["kind"], b["count"], str(v["detail"])[:600]))
        print("VIOLATION property=%s replay=%s" % (mod.ID, path))
        replay_paths.append(path)
    nviol = len(replay_paths)

    wall = time.time() - t0
    coverage = {
        "evaluations": int(evaluations), "distinct_nontrivial": len(nontrivial), "rule": mod.RULE,
        "samples": samples, "labels": dict(sorted(labels.items())), "shards": nshards,
        "corpus_cases_replayed": n_corpus, "known_finding_hits": dict(known_hits),
        "inconclusive_skipped_after_wall_guard": skipped, "budget": budget,
        "violation_buckets": [{"signature": b["signature"], "count": b["count"]} for b in buckets.values()],
        "exhaustive": bool(getattr(mod, "EXHAUSTIVE", {}).get(tier, False)),
    }
    coverage.update(extra)
    evidence = {"property_id": mod.ID, "tier": tier, "seed": seed, "level": "exploration", "coverage": coverage,
                "assumptions": list(mod.ASSUMPTIONS), "wall_s": round(wall, 2), "violations": nviol}
    os.makedirs(os.path.join(OUT, "evidence"), exist_ok=True)
    with open(os.path.join(OUT, "evidence", mod.ID + ".json"), "w") as f:
        f.write(json.dumps(evidence, indent=1, sort_keys=True, default=_default) + "\n")
    print("%s %s seed=%d: %d cases, %d distinct non-trivial, %d known-finding hits, %d violation bucket(s), %.1fs"
          % (mod.ID, tier, seed, evaluations, len(nontrivial), sum(known_hits.values()), nviol, wall))
    if skipped:
        print("  (%d cases not started: wall-clock guard reached — inconclusive for those)" % skipped)
    return 1 if nviol else 0
