"""Snapshots of a live model as canonical physical values, and the one tolerant comparison used by all oracles."""
import hashlib
import json

import numpy as np

from . import env

env.import_efootprint()

from efootprint.abstract_modeling_classes.explainable_object_base_class import ExplainableObject  # noqa: E402
from efootprint.abstract_modeling_classes.explainable_objects import (  # noqa: E402
    EmptyExplainableObject, ExplainableQuantity, ExplainableHourlyQuantities)
from efootprint.abstract_modeling_classes.explainable_object_dict import ExplainableObjectDict  # noqa: E402
from efootprint.abstract_modeling_classes.list_linked_to_modeling_obj import ListLinkedToModelingObj  # noqa: E402
from efootprint.abstract_modeling_classes.modeling_object import ModelingObject  # noqa: E402
from efootprint.abstract_modeling_classes.contextual_modeling_object_attribute import (  # noqa: E402
    ContextualModelingObjectAttribute)

RTOL = 1e-9          # float re-association (list(set()) order, a+b+c vs a+(b+c)) only
TOTAL_ATOL = 1.01e-4  # System.total_footprint is rounded to 4 decimals (kg)

SYSTEM_BOOKKEEPING = ("previous_change", "previous_total_energy_footprints_sum_over_period",
                      "previous_total_fabrication_footprints_sum_over_period", "all_changes",
                      "initial_total_energy_footprints_sum_over_period",
                      "initial_total_fabrication_footprints_sum_over_period", "simulation")


def _S():
    from . import spec
    return spec


def canon(v):
    """Canonical physical value of one attribute value."""
    if isinstance(v, dict):
        return {"__dict__": {_key(k): canon(x) for k, x in v.items()}}
    if isinstance(v, EmptyExplainableObject):
        return None
    if isinstance(v, ExplainableHourlyQuantities):
        df = v.value
        q = df["value"].values.quantity
        qb = q.to_base_units()
        idx = df.index
        aware = idx.tz is not None
        if aware:
            idx = idx.tz_convert("UTC").tz_localize(None)
        return {"dim": str(qb.dimensionality), "aware": aware,
                "t": np.asarray(idx.values, dtype="datetime64[ns]").astype("int64"),
                "v": np.asarray(qb.magnitude, dtype=float)}
    if isinstance(v, ExplainableQuantity):
        qb = v.value.to_base_units()
        return {"dim": str(qb.dimensionality), "m": float(qb.magnitude)}
    if isinstance(v, ExplainableObject):
        val = v.value
        if hasattr(val, "zone"):
            return {"repr": "tz:" + val.zone}
        if isinstance(val, (dict, list)):
            return {"repr": "json:" + hashlib.sha1(json.dumps(val, sort_keys=True, default=str).encode()).hexdigest()}
        return {"repr": repr(val)}
    if isinstance(v, ListLinkedToModelingObj) or isinstance(v, list):
        return {"links": [_S().key_of(x) for x in v]}
    if isinstance(v, (ModelingObject, ContextualModelingObjectAttribute)):
        return {"link": _S().key_of(v)}
    if v is None or isinstance(v, (str, int, float, bool)):
        return {"repr": repr(v)}
    return {"repr": "<%s>" % type(v).__name__}


def _key(k):
    return _S().key_of(k) if hasattr(k, "name") else str(k)


def input_attr_names(obj):
    obj = getattr(obj, "_value", obj)
    skip = set(obj.attributes_that_shouldnt_trigger_update_logic) | set(obj.calculated_attributes)
    return [k for k in obj.__dict__ if k not in skip]


def snapshot(objs, calc=True, inputs=False):
    """{(object name, attribute): canonical value} over the given {name: object}."""
    out = {}
    for name, obj in objs.items():
        obj = getattr(obj, "_value", obj)
        if calc:
            for a in obj.calculated_attributes:
                out[(name, a)] = canon(getattr(obj, a, None))
        if inputs:
            for a in input_attr_names(obj):
                out[(name, a)] = canon(obj.__dict__[a])
    return out


def _series_close(x, y, rtol, atol):
    if x["dim"] != y["dim"]:
        return False, "dimension %s vs %s" % (x["dim"], y["dim"])
    if x.get("aware") != y.get("aware"):
        return False, "tz-awareness differs"
    t = np.union1d(x["t"], y["t"])
    a = np.zeros(len(t))
    b = np.zeros(len(t))
    a[np.searchsorted(t, x["t"])] = x["v"]
    b[np.searchsorted(t, y["t"])] = y["v"]
    if not (np.all(np.isfinite(a)) and np.all(np.isfinite(b))):
        if np.array_equal(np.isnan(a), np.isnan(b)) and np.allclose(a[~np.isnan(a)], b[~np.isnan(b)], rtol, atol):
            return True, ""
        return False, "non-finite values"
    scale = max(np.max(np.abs(a), initial=0.0), np.max(np.abs(b), initial=0.0))
    d = np.abs(a - b)
    bad = d > rtol * scale + atol
    if bad.any():
        i = int(np.argmax(d))
        return False, "hour %s: %r vs %r (scale %g)" % (
            np.datetime64(int(t[i]), "ns"), float(a[i]), float(b[i]), scale)
    return True, ""


def close(x, y, rtol=RTOL, atol=0.0):
    """Tolerant equality of two canonical values. Returns (bool, why)."""
    if isinstance(x, dict) and "__dict__" in x or isinstance(y, dict) and "__dict__" in y:
        if not (isinstance(x, dict) and isinstance(y, dict) and "__dict__" in x and "__dict__" in y):
            return False, "dict vs non-dict"
        dx, dy = x["__dict__"], y["__dict__"]
        if set(dx) != set(dy):
            return False, "dict keys %s vs %s" % (sorted(dx), sorted(dy))
        for k in dx:
            ok, why = close(dx[k], dy[k], rtol, atol)
            if not ok:
                return False, "[%s] %s" % (k, why)
        return True, ""
    # None (empty) is equivalent to an all-zero series / zero scalar
    if x is None and y is None:
        return True, ""
    if x is None or y is None:
        z = y if x is None else x
        if "v" in z:
            ok = bool(np.all(np.abs(z["v"]) <= atol))
            return ok, "" if ok else "empty vs non-zero series"
        if "m" in z:
            ok = abs(z["m"]) <= atol
            return ok, "" if ok else "empty vs %r" % z["m"]
        return False, "empty vs %r" % (z,)
    if "v" in x and "v" in y:
        return _series_close(x, y, rtol, atol)
    if "m" in x and "m" in y:
        if x["dim"] != y["dim"]:
            return False, "dimension %s vs %s" % (x["dim"], y["dim"])
        a, b = x["m"], y["m"]
        if a == b:
            return True, ""
        ok = abs(a - b) <= rtol * max(abs(a), abs(b)) + atol
        return ok, "" if ok else "%r vs %r" % (a, b)
    if ("v" in x) != ("v" in y) or ("m" in x) != ("m" in y):
        return False, "different kinds of value"
    ok = x == y
    return ok, "" if ok else "%r vs %r" % (x, y)


def atol_for(key):
    return TOTAL_ATOL if key[0] == "system" and key[1] == "total_footprint" else 0.0


def compare(a, b, rtol=RTOL, keys=None):
    """List of (key, reason) where two snapshots differ (missing keys included)."""
    diffs = []
    ks = keys if keys is not None else sorted(set(a) | set(b))
    for k in ks:
        if k not in a or k not in b:
            diffs.append((k, "missing on %s side" % ("left" if k not in a else "right")))
            continue
        ok, why = close(a[k], b[k], rtol, atol_for(k))
        if not ok:
            diffs.append((k, why))
    return diffs


def total(c):
    """Sum over hours of a canonical value (0 for empty)."""
    if c is None:
        return 0.0
    if "v" in c:
        return float(np.sum(c["v"]))
    if "m" in c:
        return c["m"]
    raise ValueError(c)


def as_map(c):
    """{ns timestamp: value} of a canonical hourly value ({} for empty)."""
    if c is None:
        return {}
    return {int(t): float(v) for t, v in zip(c["t"], c["v"])}


def jsonable(c):
    """A JSON-friendly rendering of a canonical value (for replay files and samples)."""
    if c is None:
        return None
    if isinstance(c, dict) and "__dict__" in c:
        return {k: jsonable(v) for k, v in c["__dict__"].items()}
    if isinstance(c, dict) and "v" in c:
        n = len(c["v"])
        return {"dim": c["dim"], "start": str(np.datetime64(int(c["t"][0]), "ns")) if n else None, "n": n,
                "v": [float(x) for x in c["v"][:48]]}
    return c
