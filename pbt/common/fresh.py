"""Helpers for properties over freshly built systems: physical readers on canonical values, spec-derived sets."""
import math

import numpy as np
from hypothesis import strategies as st

from . import env, spec as S, snap, gen as G, machine as M

env.import_efootprint()


@st.composite
def spec_cases(draw, **kw):
    return {"spec": draw(G.specs(**kw)), "id_seed": draw(st.integers(0, 2 ** 20))}


def build_case(case, ctx=None):
    """Build; returns (objs, None) or (None, exception)."""
    try:
        with M.watchdog():
            return S.build(case["spec"], id_seed=case.get("id_seed", 0)), None
    except M.Hang as ex:
        return None, ex
    except Exception as ex:
        return None, ex


def base_q(val):
    """[m, unit] -> magnitude in base units."""
    from efootprint.constants.units import u
    return float((val[0] * u(val[1])).to_base_units().magnitude)


def attr_q(spec, name, attr):
    """Input quantity of an object of the spec in base units (class default when omitted)."""
    e = spec["objs"][name]
    val = e.get(attr)
    if val is None:
        val = S.default_quantity(e["cls"], attr)
    return base_q(val)


def series(c):
    """Canonical hourly value -> {ns: float} ({} for empty)."""
    return snap.as_map(c)


def add_into(acc, m, factor=1.0):
    for k, v in m.items():
        acc[k] = acc.get(k, 0.0) + factor * v
    return acc


def maps_close(a, b, rtol=1e-9, atol=0.0):
    """Compare two {ts: value} maps, missing = 0. Returns '' or reason."""
    keys = set(a) | set(b)
    scale = max([abs(x) for x in a.values()] + [abs(x) for x in b.values()] + [0.0])
    for k in sorted(keys):
        x, y = a.get(k, 0.0), b.get(k, 0.0)
        if not (math.isfinite(x) and math.isfinite(y)):
            return "non-finite value at %s" % np.datetime64(int(k), "ns")
        if abs(x - y) > rtol * scale + atol:
            return "hour %s: %r vs %r (scale %g)" % (np.datetime64(int(k), "ns"), x, y, scale)
    return ""


def spec_components(spec):
    """Component sets derived from the spec only: servers, storages, networks, patterns, jobs reachable."""
    ups = list(spec["system"])
    jobs, servers, storages, networks = [], [], [], []
    for up in ups:
        e = spec["objs"][up]
        if e["network"] not in networks:
            networks.append(e["network"])
        for j in S.journey_jobs(spec, e["usage_journey"]):
            if j not in jobs:
                jobs.append(j)
    for j in jobs:
        srv = S.job_server(spec, j)
        if srv not in servers:
            servers.append(srv)
    for srv in servers:
        stn = spec["objs"][srv]["storage"]
        if stn not in storages:
            storages.append(stn)
    return {"ups": ups, "jobs": jobs, "servers": servers, "storages": storages, "networks": networks}


def jobs_of_server(spec, srv):
    """All jobs of the spec running on a server (directly or through a service), whether used or not."""
    return [n for n, e in spec["objs"].items() if e["cls"] in S.JOB_CLS and S.job_server(spec, n) == srv]


def sharing_labels(spec):
    comp = spec_components(spec)
    labels = []
    up_e = [spec["objs"][u] for u in comp["ups"]]
    if len(comp["ups"]) >= 2:
        labels.append("multi_up")
        if len({e["network"] for e in up_e}) < len(up_e):
            labels.append("shared_network")
        if len({e["country"] for e in up_e}) < len(up_e):
            labels.append("shared_country")
        if len({e["usage_journey"] for e in up_e}) < len(up_e):
            labels.append("shared_journey")
        if len({e["country"] for e in up_e}) > 1 and len({spec["objs"][e["country"]]["timezone"] for e in up_e}) > 1:
            labels.append("multi_zone")
    if any(len(set(S.ups_of_job(spec, j))) >= 2 for j in comp["jobs"]):
        labels.append("shared_job")
    srv_ups = {}
    for j in comp["jobs"]:
        srv_ups.setdefault(S.job_server(spec, j), set()).update(S.ups_of_job(spec, j))
    if any(len(v) >= 2 for v in srv_ups.values()):
        labels.append("shared_server")
    return labels
