"""Edit algebra: every edit is plain data with two interpreters — on the spec (pure) and on the live model
(calling the public API exactly as a user would)."""
import copy

from . import env, spec as S

env.import_efootprint()

from efootprint.abstract_modeling_classes.explainable_objects import EmptyExplainableObject  # noqa: E402
from efootprint.abstract_modeling_classes.modeling_update import ModelingUpdate  # noqa: E402
from efootprint.abstract_modeling_classes.source_objects import SourceObject  # noqa: E402
import pytz  # noqa: E402


class Inapplicable(Exception):
    """The edit does not make sense on this spec (used by the minimiser when it drops earlier edits)."""


def _entry(spec, name):
    if name not in spec["objs"]:
        raise Inapplicable(name)
    return spec["objs"][name]


def py_list_op(lst, method, args):
    """Python-list semantics of a mutator on a list of names. Returns the new list (raises like list does)."""
    new = list(lst)
    if method == "append":
        new.append(args[0])
    elif method == "insert":
        new.insert(args[0], args[1])
    elif method in ("extend", "iadd"):
        new.extend(args[0])
    elif method == "imul":
        new *= args[0]
    elif method == "pop":
        new.pop(*args)
    elif method == "remove":
        new.remove(args[0])
    elif method == "delitem":
        del new[args[0]]
    elif method == "delslice":
        del new[args[0]:args[1]]
    elif method == "setitem":
        new[args[0]] = args[1]
    elif method == "clear":
        new.clear()
    else:
        raise ValueError(method)
    return new


SIMPLE = ("q", "fixed", "hourly", "tz", "choice", "link", "list")


def apply_spec(spec, e):
    """Pure: the spec after the edit."""
    sp = copy.deepcopy(spec)
    _apply_spec_inplace(sp, e)
    return sp


def _apply_spec_inplace(sp, e):
    op = e["op"]
    if op == "q":
        _entry(sp, e["obj"])[e["attr"]] = list(e["val"])
    elif op == "fixed":
        _entry(sp, e["obj"])["fixed_nb_of_instances"] = None if e["val"] is None else list(e["val"])
    elif op == "hourly":
        en = _entry(sp, e["obj"])
        en["start"] = list(e["start"])
        en["starts"] = list(e["starts"])
    elif op == "tz":
        _entry(sp, e["obj"])["timezone"] = e["zone"]
    elif op == "choice":
        _entry(sp, e["obj"])[e["attr"]] = e["val"]
    elif op == "link":
        _entry(sp, e["target"])
        _entry(sp, e["obj"])[e["attr"]] = e["target"]
    elif op == "list":
        for t in e["targets"]:
            _entry(sp, t)
        _entry(sp, e["obj"])[e["attr"]] = list(e["targets"])
    elif op == "listop":
        en = _entry(sp, e["obj"])
        try:
            en[e["attr"]] = py_list_op(en[e["attr"]], e["method"], e["args"])
        except (ValueError, IndexError) as ex:
            raise Inapplicable(str(ex))
    elif op == "add_up":
        if e["up"] in sp["system"] or e["up"] not in sp["objs"]:
            raise Inapplicable(e["up"])
        sp["system"] = sp["system"] + [e["up"]]
    elif op == "remove_up":
        if e["up"] not in sp["system"] or len(sp["system"]) < 2:
            raise Inapplicable(e["up"])
        sp["system"] = [x for x in sp["system"] if x != e["up"]]
    elif op == "group":
        for sub in e["edits"]:
            _apply_spec_inplace(sp, sub)
    else:
        raise ValueError(op)


def _new_value(objs, e):
    op = e["op"]
    if op == "q":
        return S.Q(e["val"])
    if op == "fixed":
        return EmptyExplainableObject() if e["val"] is None else S.Q(e["val"])
    if op == "hourly":
        return S.hourly(e["start"], e["starts"])
    if op == "tz":
        return SourceObject(pytz.timezone(e["zone"]))
    if op == "choice":
        return SourceObject(e["val"])
    if op == "link":
        return objs[e["target"]]
    if op == "list":
        return [objs[t] for t in e["targets"]]
    raise ValueError(op)


def _attr_of(e):
    return {"fixed": "fixed_nb_of_instances", "hourly": "hourly_usage_journey_starts", "tz": "timezone"}.get(
        e["op"], e.get("attr"))


class _Own(dict):
    """objs, except that names present in ``own`` resolve to the list's own element."""

    def __init__(self, objs, own):
        super().__init__(objs)
        self.own = own

    def __getitem__(self, k):
        return self.own[k] if k in self.own else super().__getitem__(k)


def _iterable(values, arg_as):
    """extend / += take any iterable, like list does: a list, a tuple or a one-shot iterator."""
    if arg_as == "tuple":
        return tuple(values)
    if arg_as == "iterator":
        return iter(values)
    if arg_as == "generator":
        return (v for v in values)
    return values


def apply_live(objs, e, spec_before):
    """Apply the edit to the live model through the public API. ``objs`` is updated for add/remove of patterns."""
    op = e["op"]
    if op in SIMPLE:
        setattr(objs[e["obj"]], _attr_of(e), _new_value(objs, e))
    elif op == "listop":
        obj = objs[e["obj"]]
        lst = getattr(obj, e["attr"])
        m, args = e["method"], e["args"]
        if e.get("arg_as") == "own":
            # the caller passes elements taken from the list itself (lst.append(lst[0])), not the plain objects
            own = {S.key_of(x): x for x in lst}
            objs = _Own(objs, own)
        if m == "append":
            lst.append(objs[args[0]])
        elif m == "insert":
            lst.insert(args[0], objs[args[1]])
        elif m == "extend":
            lst.extend(_iterable([objs[t] for t in args[0]], e.get("arg_as")))
        elif m == "iadd":   # obj.attr += [...]  ==  __iadd__ then re-assignment of the same list
            lst += _iterable([objs[t] for t in args[0]], e.get("arg_as"))
            setattr(obj, e["attr"], lst)
        elif m == "imul":
            lst *= args[0]
            setattr(obj, e["attr"], lst)
        elif m == "pop":
            lst.pop(*args)
        elif m == "remove":
            lst.remove(objs[args[0]])
        elif m == "delitem":
            del lst[args[0]]
        elif m == "delslice":
            del lst[args[0]:args[1]]
        elif m == "setitem":
            lst[args[0]] = objs[args[1]]
        elif m == "clear":
            lst.clear()
        else:
            raise ValueError(m)
    elif op == "add_up":
        n = e["up"]
        up = S.construct(n, spec_before["objs"][n], objs)   # created right before being added
        how = e.get("how", "assign")
        system = objs["system"]
        try:
            if how == "assign":
                system.usage_patterns = list(system.usage_patterns) + [up]
            elif how == "append":
                system.usage_patterns.append(up)
            elif how == "iadd":
                system.usage_patterns += [up]
            else:
                raise ValueError(how)
        except BaseException:
            # the caller discards a usage pattern it could not add (otherwise its journey and jobs keep counting it)
            try:
                up.self_delete()
            except Exception:
                pass
            raise
        objs[n] = up
    elif op == "remove_up":
        n = e["up"]
        system = objs["system"]
        how = e.get("how", "assign")
        i = [S.key_of(x) for x in system.usage_patterns].index(n)
        if how == "assign":
            system.usage_patterns = [x for x in system.usage_patterns if S.key_of(x) != n]
        elif how == "pop":
            system.usage_patterns.pop(i)
        elif how == "delitem":
            del system.usage_patterns[i]
        else:
            raise ValueError(how)
        objs[n].self_delete()    # what real callers do with a usage pattern that leaves the system
        del objs[n]
    elif op == "group":
        changes = []
        for sub in e["edits"]:
            assert sub["op"] in SIMPLE
            changes.append([getattr(objs[sub["obj"]], _attr_of(sub)), _new_value(objs, sub)])
        ModelingUpdate(changes)
    else:
        raise ValueError(op)


def changes_for_simulation(objs, edits):
    """[[current value, new value], ...] for a ModelingUpdate / simulation from simple edits."""
    return [[getattr(objs[sub["obj"]], _attr_of(sub)), _new_value(objs, sub)] for sub in edits]


def inverse(spec_before, e):
    """The edit that undoes ``e`` when applied right after it (None when there is no single inverse)."""
    op = e["op"]
    ob = spec_before["objs"]
    if op == "q":
        old = ob[e["obj"]].get(e["attr"])
        if old is None:
            old = S.default_quantity(ob[e["obj"]]["cls"], e["attr"])
        return dict(op="q", obj=e["obj"], attr=e["attr"], val=old)
    if op == "fixed":
        return dict(op="fixed", obj=e["obj"], val=ob[e["obj"]].get("fixed_nb_of_instances"))
    if op == "hourly":
        return dict(op="hourly", obj=e["obj"], start=ob[e["obj"]]["start"], starts=ob[e["obj"]]["starts"])
    if op == "tz":
        return dict(op="tz", obj=e["obj"], zone=ob[e["obj"]]["timezone"])
    if op == "choice":
        if e["attr"] not in ob[e["obj"]]:
            return None
        return dict(op="choice", obj=e["obj"], attr=e["attr"], val=ob[e["obj"]][e["attr"]])
    if op == "link":
        return dict(op="link", obj=e["obj"], attr=e["attr"], target=ob[e["obj"]][e["attr"]])
    if op in ("list", "listop"):
        return dict(op="list", obj=e["obj"], attr=e["attr"], targets=list(ob[e["obj"]][e["attr"]]))
    if op == "group":
        inv = [inverse(spec_before, s) for s in e["edits"]]
        if any(i is None for i in inv):
            return None
        return dict(op="group", edits=inv)
    return None


def describe(e):
    op = e["op"]
    if op == "group":
        return "group(" + ", ".join(describe(s) for s in e["edits"]) + ")"
    if op == "listop":
        return "%s.%s.%s" % (e["obj"], e["attr"], e["method"])
    if op in ("add_up", "remove_up"):
        return "%s(%s,%s)" % (op, e["up"], e.get("how", "assign"))
    return "%s.%s" % (e["obj"], _attr_of(e))


def kind(spec, e):
    """class.attribute (or list operation) of an edit: part of the signature of a finding."""
    op = e["op"]
    if op == "group":
        return "group[" + ",".join(sorted(kind(spec, s) for s in e["edits"])) + "]"
    if op in ("add_up", "remove_up"):
        return "System.usage_patterns:" + op
    cls = spec["objs"][e["obj"]]["cls"] if e["obj"] in spec["objs"] else "?"
    if op == "listop":
        return "%s.%s:%s" % (cls, e["attr"], e["method"])
    return "%s.%s" % (cls, _attr_of(e))
