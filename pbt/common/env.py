"""Process environment for every check: import e-footprint from the *working tree*, make runs deterministic.

Nothing here changes the repository: the code under test is imported from $VERIF_REPO (default /repo), its
logger is silenced, and ``uuid.uuid4`` is replaced from outside by a seeded generator so that object ids (and
with them every ``list(set(...))`` order) are part of the generated case and replay exactly.
"""
import os
import sys

REPO = os.environ.get("VERIF_REPO", "/repo")
VERIF = os.path.dirname(os.path.dirname(os.path.dirname(os.path.abspath(__file__))))
GUARD = "BOAVIZTA_E_FOOTPRINT_VERIF"

sys.dont_write_bytecode = True
os.environ.setdefault("PYTHONDONTWRITEBYTECODE", "1")
os.environ.setdefault(GUARD, "1")
os.environ.setdefault("MPLBACKEND", "Agg")
if REPO not in sys.path:
    sys.path.insert(0, REPO)

import logging  # noqa: E402
import random as _random  # noqa: E402
import uuid as _uuid  # noqa: E402
import warnings  # noqa: E402

warnings.filterwarnings("ignore")

_real_uuid4 = _uuid.uuid4
_idrng = _random.Random(0)


def _seeded_uuid4():
    return _uuid.UUID(int=_idrng.getrandbits(128), version=4)


def set_id_seed(seed):
    """Make the ids of the objects created from now on a pure function of ``seed``."""
    _idrng.seed(int(seed))
    _uuid.uuid4 = _seeded_uuid4


def import_efootprint():
    from efootprint.logger import logger
    logger.setLevel(logging.CRITICAL)
    for h in logger.handlers:
        h.setLevel(logging.CRITICAL)
    import efootprint  # noqa: F401
    assert os.path.realpath(os.path.dirname(os.path.dirname(efootprint.__file__))) == os.path.realpath(REPO), \
        f"efootprint imported from {efootprint.__file__}, expected {REPO}"
    set_id_seed(0)
    return efootprint


def verif_seed():
    try:
        return int(os.environ.get("VERIF_SEED", "1"))
    except ValueError:
        return 1
