"""Hypothesis strategies: specs (systems) and edits. Construction, not rejection."""
import copy
import math
from datetime import datetime, timedelta

from hypothesis import strategies as st

from . import env, spec as S
from . import edits as E

env.import_efootprint()

ZONES = ["UTC", "Europe/Paris", "Europe/London", "America/New_York", "America/Los_Angeles", "America/Sao_Paulo",
         "America/St_Johns", "Asia/Kolkata", "Asia/Kathmandu", "Asia/Tokyo", "Asia/Kuala_Lumpur", "Asia/Tehran",
         "Australia/Sydney", "Australia/Lord_Howe", "Australia/Adelaide", "Pacific/Auckland", "Pacific/Chatham",
         "Pacific/Apia", "Pacific/Kiritimati", "Africa/Casablanca", "Africa/Johannesburg", "Antarctica/Troll",
         "Etc/GMT+12", "Etc/GMT-14"]

# anchors: local dates around which DST transitions, leap days, year/month ends sit
ANCHORS = [(2024, 2, 28), (2024, 3, 10), (2024, 3, 31), (2024, 4, 7), (2024, 10, 6), (2024, 10, 27), (2024, 11, 3),
           (2024, 12, 31), (2025, 1, 1), (2025, 3, 9), (2025, 3, 30), (2025, 4, 6), (2025, 10, 5), (2025, 10, 26),
           (2025, 11, 2), (2025, 9, 21), (2025, 9, 28), (2026, 3, 29), (2026, 10, 25), (2011, 12, 29)]


def nice(lo, hi):
    """Floats in [lo, hi] with 3 significant digits (log-uniform-ish)."""
    a, b = math.log10(lo), math.log10(hi)
    return st.floats(a, b, allow_nan=False).map(lambda x: float("%.3g" % min(hi, max(lo, 10 ** x))))


def eighths(max_int=1000):
    return st.one_of(st.integers(0, max_int).map(float), st.integers(0, 8 * 50).map(lambda k: k / 8.0))


@st.composite
def series(draw, max_len=48, long_prob=0.1, long_max=200, zeros=0.15):
    n = draw(st.integers(1, max_len))
    if long_prob and draw(st.floats(0, 1)) < long_prob:
        n = draw(st.integers(max_len, long_max))
    vals = draw(st.lists(st.one_of(st.just(0.0), eighths()) if zeros else eighths(), min_size=n, max_size=n))
    if all(v == 0 for v in vals):
        vals[draw(st.integers(0, n - 1))] = float(draw(st.integers(1, 50)))
    return vals


@st.composite
def start_dates(draw):
    if draw(st.booleans()):
        y, m, d = draw(st.sampled_from(ANCHORS))
        base = datetime(y, m, d) + timedelta(hours=draw(st.integers(-72, 72)))
    else:
        base = datetime(2020, 1, 1) + timedelta(hours=draw(st.integers(0, 24 * 365 * 10)))
    return [base.year, base.month, base.day, base.hour]


# ------------------------------------------------------------------------------------------------ quantities

DURATIONS_STEP = [[0.0, "s"], [1.0, "s"], [30.0, "s"], [1.0, "min"], [10.0, "min"], [59.0, "min"], [60.0, "min"],
                  [61.0, "min"], [1.0, "hour"], [2.0, "hour"], [2.5, "hour"], [90.0, "min"]]
DURATIONS_REQ = [[0.2, "s"], [1.0, "s"], [5.0, "s"], [2.0, "min"], [59.0, "min"], [1.0, "hour"], [61.0, "min"],
                 [90.0, "min"], [3.0, "hour"], [2.0, "hour"]]
STORAGE_DURATIONS = [[1.0, "hour"], [3.0, "hour"], [7.0, "hour"], [2.0, "day"], [30.0, "day"], [1.0, "year"],
                     [5.0, "year"], [90.0, "min"], [2.5, "hour"], [20.0, "min"], [4000.0, "s"], [0.3, "day"]]


def q(strategy, unit):
    return strategy.map(lambda m: [float(m), unit])


def qrange(cls, attr):
    """Strategy of accepted values [m, unit] for one quantity input."""
    T = {
        ("Storage", "carbon_footprint_fabrication_per_storage_capacity"): q(nice(20, 500), "kg/TB"),
        ("Storage", "power_per_storage_capacity"): q(nice(0.5, 10), "W/TB"),
        ("Storage", "lifespan"): q(nice(1, 10), "year"),
        ("Storage", "idle_power"): st.one_of(st.just([0.0, "W"]), q(nice(0.1, 5), "W")),
        ("Storage", "storage_capacity"): st.one_of(q(nice(0.5, 16), "TB"), q(nice(100, 4000), "GB")),
        ("Storage", "data_replication_factor"): q(st.sampled_from([1.0, 2.0, 3.0, 1.5]), "dimensionless"),
        ("Storage", "base_storage_need"): st.one_of(st.just([0.0, "TB"]), q(nice(0.001, 50), "TB")),
        ("Storage", "data_storage_duration"): st.sampled_from(STORAGE_DURATIONS),
        ("Server", "carbon_footprint_fabrication"): q(nice(100, 5000), "kg"),
        ("Server", "power"): q(nice(100, 1000), "W"),
        ("Server", "lifespan"): q(nice(2, 10), "year"),
        ("Server", "idle_power"): q(nice(5, 100), "W"),
        ("Server", "ram"): q(nice(8, 1024), "GB"),
        ("Server", "compute"): q(st.integers(2, 128), "cpu_core"),
        ("Server", "power_usage_effectiveness"): q(nice(1, 2.5), "dimensionless"),
        ("Server", "average_carbon_intensity"): q(nice(10, 800), "g/kWh"),
        ("Server", "server_utilization_rate"): q(nice(0.3, 1), "dimensionless"),
        ("Server", "base_ram_consumption"): st.one_of(st.just([0.0, "GB"]), q(nice(0.1, 2), "GB")),
        ("Server", "base_compute_consumption"): st.one_of(st.just([0.0, "cpu_core"]), q(nice(0.05, 0.5), "cpu_core")),
        ("GPUServer", "gpu_power"): q(nice(100, 700), "W/gpu"),
        ("GPUServer", "gpu_idle_power"): q(nice(10, 100), "W/gpu"),
        ("GPUServer", "ram_per_gpu"): q(nice(40, 192), "GB/gpu"),
        ("GPUServer", "carbon_footprint_fabrication_per_gpu"): q(nice(50, 300), "kg/gpu"),
        ("GPUServer", "carbon_footprint_fabrication_without_gpu"): q(nice(500, 5000), "kg"),
        ("GPUServer", "compute"): q(st.integers(1, 16), "gpu"),
        ("GPUServer", "base_compute_consumption"): st.just([0.0, "gpu"]),
        ("GPUServer", "base_ram_consumption"): st.just([0.0, "GB"]),
        ("VideoStreaming", "base_ram_consumption"): q(nice(0.1, 2), "GB"),
        ("VideoStreaming", "bits_per_pixel"): q(nice(0.02, 0.5), "dimensionless"),
        ("VideoStreaming", "static_delivery_cpu_cost"): q(nice(0.5, 10), "cpu_core*s/GB"),
        ("VideoStreaming", "ram_buffer_per_user"): q(nice(5, 200), "MB"),
        ("VideoStreamingJob", "video_duration"): st.sampled_from(
            [[20.0, "min"], [1.0, "hour"], [90.0, "min"], [30.0, "s"], [2.0, "hour"], [61.0, "min"]]),
        ("VideoStreamingJob", "refresh_rate"): q(st.sampled_from([24.0, 30.0, 60.0]), "1/s"),
        ("VideoStreamingJob", "data_stored"): st.one_of(st.just([0.0, "MB"]), q(nice(0.1, 50), "MB")),
        ("WebApplicationJob", "data_transferred"): q(nice(0.01, 50), "MB"),
        ("WebApplicationJob", "data_stored"): q(nice(1, 5000), "kB"),
        ("GenAIModel", "nb_of_bits_per_parameter"): q(st.sampled_from([4.0, 8.0, 16.0]), "dimensionless"),
        ("GenAIModel", "llm_memory_factor"): q(nice(1, 1.5), "dimensionless"),
        ("GenAIModel", "gpu_latency_alpha"): q(nice(1e-13, 5e-12), "s"),
        ("GenAIModel", "gpu_latency_beta"): q(nice(0.005, 0.1), "s"),
        ("GenAIModel", "bits_per_token"): q(st.sampled_from([16.0, 24.0, 32.0]), "dimensionless"),
        ("GenAIJob", "output_token_count"): q(st.integers(10, 5000), "dimensionless"),
        ("Job", "data_transferred"): st.one_of(st.just([0.0, "kB"]), q(nice(1, 5000), "kB"), q(nice(1, 3000), "MB")),
        ("Job", "data_stored"): st.one_of(st.just([0.0, "kB"]), q(nice(1, 5000), "kB"), q(nice(0.1, 33.3), "kB"),
                                          q(nice(1, 500), "MB")),
        ("Job", "request_duration"): st.sampled_from(DURATIONS_REQ),
        ("Job", "compute_needed"): q(nice(0.01, 4), "cpu_core"),
        ("Job", "ram_needed"): st.one_of(q(nice(1, 4000), "MB"), q(nice(0.01, 4), "GB")),
        ("UsageJourneyStep", "user_time_spent"): st.sampled_from(DURATIONS_STEP),
        ("Device", "carbon_footprint_fabrication"): q(nice(10, 500), "kg"),
        ("Device", "power"): q(nice(1, 200), "W"),
        ("Device", "lifespan"): q(nice(1, 10), "year"),
        ("Device", "fraction_of_usage_time"): q(nice(0.5, 24), "hour/day"),
        ("Country", "average_carbon_intensity"): q(nice(10, 900), "g/kWh"),
        ("Network", "bandwidth_energy_intensity"): q(nice(0.001, 1), "kWh/GB"),
    }
    if cls == "BoaviztaCloudServer":
        key = ("Server", attr)
    else:
        key = (cls, attr)
    if key not in T and cls == "GPUServer":
        key = ("Server", attr)
    return T[key]


_BOAVIZTA = None
_GENAI = None
_WEB = None


# instance types for which the packaged Boavizta data itself fails (known finding KF-31): not valid by construction
BOAVIZTA_BROKEN = [("aws", "ra3.16xlarge"), ("aws", "ra3.4xlarge"), ("gcp", "c3d-highmem-180 "),
                   ("gcp", "c3d-highmem-360 "), ("gcp", "c3d-standard-360 "), ("gcp", "c4-highmem-192 ")]


def boavizta_choices(include_broken=False):
    global _BOAVIZTA
    if _BOAVIZTA is None:
        from efootprint.builders.hardware.boavizta_cloud_server import BoaviztaCloudServer
        clv = BoaviztaCloudServer.conditional_list_values()["instance_type"]["conditional_list_values"]
        _BOAVIZTA = sorted((k.value, v.value) for k, vals in clv.items() for v in vals)
    if not include_broken:
        return [c for c in _BOAVIZTA if c not in BOAVIZTA_BROKEN]
    return _BOAVIZTA


_BOAVIZTA_RAM = {}


def boavizta_ram_gb(provider, instance_type):
    key = (provider, instance_type)
    if key not in _BOAVIZTA_RAM:
        from efootprint.builders.hardware.boaviztapi_utils import call_boaviztapi
        r = call_boaviztapi(url="https://api.boavizta.org/v1/cloud/instance",
                            params={"provider": provider, "instance_type": instance_type})
        _BOAVIZTA_RAM[key] = float(r["verbose"]["memory"]["value"])
    return _BOAVIZTA_RAM[key]


def genai_choices():
    """(provider, model, total params in billions)"""
    global _GENAI
    if _GENAI is None:
        from efootprint.builders.services.generative_ai_ecologits import models
        from ecologits.utils.range_value import RangeValue
        out = []
        for m in models.list_models():
            p = m.architecture.parameters
            if isinstance(p, (int, float)):
                tot = p
            elif isinstance(p, RangeValue):
                tot = (p.min + p.max) / 2
            elif isinstance(p.total, RangeValue):
                tot = (p.total.min + p.total.max) / 2
            else:
                tot = p.total
            out.append((m.provider.name, m.name, float(tot)))
        _GENAI = sorted(out)
    return _GENAI


def web_choices():
    global _WEB
    if _WEB is None:
        from efootprint.builders.services.web_application import ECOBENCHMARK_DF
        _WEB = sorted(set(zip(ECOBENCHMARK_DF["service"], ECOBENCHMARK_DF["use_case"])))
    return _WEB


RESOLUTIONS = ["480p (640 x 480)", "720p (1280 x 720)", "1080p (1920 x 1080)", "1440p (2560 x 1440)",
               "2K (2048 x 1080)", "4K (3840 x 2160)", "8K (7680 x 4320)"]


# ------------------------------------------------------------------------------------------------ specs

@st.composite
def specs(draw, sharing=None, builders=None, max_len=48, long_prob=0.1, neg_stored=0.15, fixed=0.2,
          max_ups=3, spare_ups=2, empty_lists=0.05, explicit=0.7, zero_journey=0.1, big=0.0, same_names=0.15,
          prefer_gpu=0.0):
    """A well-formed model. ``sharing``: none | infra_only | jobs_too (drawn when None)."""
    if sharing is None:
        sharing = draw(st.sampled_from(["none", "infra_only", "jobs_too", "jobs_too"]))
    if builders is None:
        builders = draw(st.floats(0, 1)) < 0.35
    objs = {}
    # a fraction of larger systems (thorough tiers): more servers, jobs, steps, journeys and usage patterns
    is_big = big > 0 and draw(st.floats(0, 1)) < big
    if is_big:
        max_ups = max_ups + 2

    def fill(cls, entry, attrs=None, prob=explicit):
        for a in (attrs if attrs is not None else S.quantity_inputs(cls)):
            if draw(st.floats(0, 1)) < prob:
                entry[a] = draw(qrange(cls, a))
        return entry

    # servers with their storage
    n_srv = draw(st.integers(1, 4 if is_big else 3))
    want_gpu = bool(builders) and draw(st.floats(0, 1)) < prefer_gpu
    if want_gpu:
        n_srv = max(n_srv, 2)
    servers = []
    for i in range(n_srv):
        stn = "st%d" % i
        objs[stn] = fill("Storage", {"cls": "Storage"})
        cls = "Server"
        if builders and i == 1 and want_gpu:
            cls = "GPUServer"
        elif builders and i > 0:
            cls = draw(st.sampled_from(["Server", "GPUServer", "BoaviztaCloudServer"]))
        elif builders:
            cls = draw(st.sampled_from(["Server", "BoaviztaCloudServer"]))
        e = {"cls": cls, "storage": stn}
        e["server_type"] = draw(st.sampled_from(["autoscaling", "on-premise", "serverless"]))
        if cls == "BoaviztaCloudServer":
            e["provider"], e["instance_type"] = draw(st.sampled_from(boavizta_choices()))
            fill(cls, e, [a for a in S.quantity_inputs(cls) if a not in ("base_ram_consumption",
                                                                          "base_compute_consumption")])
        elif cls == "GPUServer":
            fill(cls, e)
        else:
            fill(cls, e)
        if e["server_type"] == "on-premise" and draw(st.floats(0, 1)) < fixed:
            e["fixed_nb_of_instances"] = [float(draw(st.sampled_from([10000, 100000]))), "dimensionless"]
        objs["srv%d" % i] = e
        servers.append("srv%d" % i)
    if draw(st.floats(0, 1)) < fixed / 2:
        objs["st0"]["fixed_nb_of_instances"] = [float(draw(st.sampled_from([100000, 1000000]))), "dimensionless"]
    if draw(st.booleans()):
        objs["st_spare"] = fill("Storage", {"cls": "Storage"})

    # services
    services = []
    if builders:
        for i in range(draw(st.integers(1 if want_gpu else 0, 2))):
            srv = draw(st.sampled_from(servers))
            if want_gpu and i == 0:
                srv = "srv1"      # the GPU server gets a generative AI service
            scls = objs[srv]["cls"]
            if scls == "GPUServer":
                prov, model, tot = draw(st.sampled_from(genai_choices()))
                e = fill("GenAIModel", {"cls": "GenAIModel", "server": srv, "provider": prov, "model_name": model},
                         ["gpu_latency_alpha", "gpu_latency_beta", "bits_per_token"])
                # enough GPUs for the model to fit (the build must not raise for lack of RAM)
                bits = 16.0
                need_gb = 1.2 * tot * 1e9 * bits / 8e9
                ram_per_gpu = objs[srv].get("ram_per_gpu", [80.0, "GB/gpu"])[0]
                util = objs[srv].get("server_utilization_rate", [1.0, ""])[0]
                already = sum(1.2 * t * 1e9 * 16 / 8e9 for (n2, t) in
                              [(n2, next(x[2] for x in genai_choices() if x[0] == objs[n2]["provider"]
                                         and x[1] == objs[n2]["model_name"]))
                               for n2 in services if objs[n2]["cls"] == "GenAIModel" and objs[n2]["server"] == srv])
                gpus = math.ceil((need_gb + already) / (ram_per_gpu * util)) + draw(st.integers(1, 4))
                objs[srv]["compute"] = [float(max(gpus, objs[srv].get("compute", [4.0])[0])), "gpu"]
            else:
                if draw(st.booleans()):
                    e = fill("VideoStreaming", {"cls": "VideoStreaming", "server": srv})
                    ram = objs[srv].get("ram", [128.0, "GB"])[0] if scls == "Server" else None
                    if ram is not None and ram < 32:
                        objs[srv]["ram"] = [64.0, "GB"]
                    if scls == "BoaviztaCloudServer":
                        # the service must fit in the instance (its RAM comes from the Boavizta data)
                        cap = boavizta_ram_gb(objs[srv]["provider"], objs[srv]["instance_type"]) * \
                            objs[srv].get("server_utilization_rate", [0.9])[0]
                        already = sum(objs[x].get("base_ram_consumption", [2.0])[0] for x in services
                                      if objs[x]["cls"] == "VideoStreaming" and objs[x]["server"] == srv)
                        room = max(cap * 0.6 - already, 0.0)
                        want = e.get("base_ram_consumption", [2.0, "GB"])[0]
                        e["base_ram_consumption"] = [float("%.3g" % min(want, room / 2 if room else 0.0)), "GB"]
                else:
                    e = {"cls": "WebApplication", "server": srv, "technology": draw(st.sampled_from(web_choices()))[0]}
            objs["svc%d" % i] = e
            services.append("svc%d" % i)
        # sometimes a second service of the same class on another server and (for now) without job: re-pointing a job
        # to it moves load between servers and wakes up a service that nothing had computed yet
        if services and draw(st.floats(0, 1)) < 0.35:
            src = draw(st.sampled_from(services))
            scls = objs[src]["cls"]
            others = [s_ for s_ in servers if s_ != objs[src]["server"] and
                      (objs[s_]["cls"] == "GPUServer") == (scls == "GenAIModel")]
            if others:
                tgt = draw(st.sampled_from(others))
                e2 = copy.deepcopy(objs[src])
                e2["server"] = tgt
                if scls == "GenAIModel":
                    tot = next(x[2] for x in genai_choices() if x[0] == e2["provider"] and x[1] == e2["model_name"])
                    need_gb = 1.2 * tot * 1e9 * 16 / 8e9
                    ram_per_gpu = objs[tgt].get("ram_per_gpu", [80.0, "GB/gpu"])[0]
                    util = objs[tgt].get("server_utilization_rate", [1.0, ""])[0]
                    objs[tgt]["compute"] = [float(max(math.ceil(need_gb / (ram_per_gpu * util)) + 2,
                                                      objs[tgt].get("compute", [4.0])[0]) + 50), "gpu"]
                elif scls == "VideoStreaming" and objs[tgt]["cls"] == "Server" and \
                        objs[tgt].get("ram", [128.0, "GB"])[0] < 32:
                    objs[tgt]["ram"] = [64.0, "GB"]
                elif scls == "VideoStreaming" and objs[tgt]["cls"] == "BoaviztaCloudServer":
                    cap = boavizta_ram_gb(objs[tgt]["provider"], objs[tgt]["instance_type"]) * \
                        objs[tgt].get("server_utilization_rate", [0.9])[0]
                    already = sum(objs[x].get("base_ram_consumption", [2.0])[0] for x in services
                                  if objs[x]["cls"] == "VideoStreaming" and objs[x]["server"] == tgt)
                    room = max(cap * 0.6 - already, 0.0)
                    e2["base_ram_consumption"] = [float("%.3g" % min(e2.get("base_ram_consumption", [2.0])[0],
                                                                      room / 2 if room else 0.0)), "GB"]
                objs["svc_twin"] = e2
                services.append("svc_twin")

    # jobs
    plain_servers = [s for s in servers if objs[s]["cls"] != "GPUServer"]
    n_jobs = draw(st.integers(1, 9 if is_big else 5))
    jobs = []
    for i in range(n_jobs):
        if services and draw(st.floats(0, 1)) < 0.5:
            svc = draw(st.sampled_from(services))
            sc = objs[svc]["cls"]
            if sc == "VideoStreaming":
                e = fill("VideoStreamingJob", {"cls": "VideoStreamingJob", "service": svc,
                                               "resolution": draw(st.sampled_from(RESOLUTIONS))})
            elif sc == "WebApplication":
                tech = objs[svc]["technology"]
                impl = draw(st.sampled_from([u for t, u in web_choices() if t == tech]))
                e = fill("WebApplicationJob", {"cls": "WebApplicationJob", "service": svc,
                                               "implementation_details": impl})
            else:
                e = fill("GenAIJob", {"cls": "GenAIJob", "service": svc})
        else:
            e = fill("Job", {"cls": "Job", "server": draw(st.sampled_from(plain_servers))})
            if "data_stored" in e and draw(st.floats(0, 1)) < neg_stored:
                e["data_stored"] = [-abs(e["data_stored"][0]), e["data_stored"][1]]
                stn = objs[e["server"]]["storage"]
                if draw(st.floats(0, 1)) < 0.9:
                    objs[stn]["base_storage_need"] = [float(draw(st.sampled_from([50, 500]))), "TB"]
        objs["job%d" % i] = e
        jobs.append("job%d" % i)

    # usage side
    n_ups = draw(st.integers(1, max_ups))
    n_spare = draw(st.integers(0, spare_ups))
    up_names = ["up%d" % i for i in range(n_ups + n_spare)]
    devices = ["dev%d" % i for i in range(draw(st.integers(1, 3)))]
    countries = ["cty%d" % i for i in range(draw(st.integers(1, 3)))]
    networks = ["net%d" % i for i in range(draw(st.integers(1, 2)))]
    for d in devices:
        objs[d] = fill("Device", {"cls": "Device"})
    for c in countries:
        objs[c] = fill("Country", {"cls": "Country", "timezone": draw(st.sampled_from(ZONES))})
        objs[c].setdefault("average_carbon_intensity", [85.0, "g/kWh"])
    for n in networks:
        objs[n] = fill("Network", {"cls": "Network"})

    def some(pool, lo, hi):
        return draw(st.lists(st.sampled_from(pool), min_size=lo, max_size=hi))

    if sharing == "jobs_too":
        steps = ["step%d" % i for i in range(draw(st.integers(1, 7 if is_big else 4)))]
        for s in steps:
            lo = 0 if draw(st.floats(0, 1)) < 0.3 else 1
            objs[s] = fill("UsageJourneyStep", {"cls": "UsageJourneyStep", "jobs": some(jobs, lo, 3)})
        journeys = ["uj%d" % i for i in range(draw(st.integers(1, 5 if is_big else 3)))]
        for j in journeys:
            lo = 0 if draw(st.floats(0, 1)) < empty_lists else 1
            objs[j] = {"cls": "UsageJourney", "uj_steps": some(steps, lo, 3)}
        up_journey = {u_: draw(st.sampled_from(journeys)) for u_ in up_names}
    else:
        # every usage pattern has its own journey, steps and jobs: no job is reachable from two patterns
        pools = {u_: [] for u_ in up_names}
        for k, j in enumerate(jobs):
            pools[up_names[k % len(up_names)] if k < len(up_names) else draw(st.sampled_from(up_names))].append(j)
        up_journey = {}
        sidx = 0
        for u_ in up_names:
            stp = []
            for _ in range(draw(st.integers(1, 2))):
                s = "step%d" % sidx
                sidx += 1
                pool = pools[u_]
                lo = 1 if pool and draw(st.floats(0, 1)) < 0.8 else 0
                objs[s] = fill("UsageJourneyStep", {"cls": "UsageJourneyStep",
                                                    "jobs": some(pool, lo, 3) if pool else []})
                stp.append(s)
            jn = "uj_" + u_
            objs[jn] = {"cls": "UsageJourney", "uj_steps": stp + (some(stp, 0, 1))}
            up_journey[u_] = jn
    # now and then a journey of null total duration (all its steps last 0 s): journeys in parallel, device energy...
    # are then 'no value' and switch to values when a duration is edited
    if draw(st.floats(0, 1)) < zero_journey:
        jn = draw(st.sampled_from(sorted(set(up_journey.values()))))
        for s_ in objs[jn]["uj_steps"]:
            objs[s_]["user_time_spent"] = [0.0, "s"]
    for k, u_ in enumerate(up_names):
        if sharing == "none":
            dv = [devices[k % len(devices)]] if k < len(devices) else None
            if dv is None:
                d = "dev_x%d" % k
                objs[d] = fill("Device", {"cls": "Device"})
                dv = [d]
            if k < len(countries):
                c = countries[k]
            else:
                c = "cty_x%d" % k
                objs[c] = fill("Country", {"cls": "Country", "timezone": draw(st.sampled_from(ZONES))})
                objs[c].setdefault("average_carbon_intensity", [85.0, "g/kWh"])
            if k < len(networks):
                n = networks[k]
            else:
                n = "net_x%d" % k
                objs[n] = fill("Network", {"cls": "Network"})
        else:
            dv = some(devices, 1, 2)
            c = draw(st.sampled_from(countries))
            n = draw(st.sampled_from(networks))
        objs[u_] = {"cls": "UsagePattern", "usage_journey": up_journey[u_], "devices": dv, "network": n,
                    "country": c, "start": draw(start_dates()),
                    "starts": draw(series(max_len=max_len, long_prob=long_prob))}
        prev = [x for x in up_names if x in objs and x != u_]
        if prev and draw(st.floats(0, 1)) < 0.2:
            # near twins: same zone, same number of hours, start a few hours (often the same day) apart -- whatever is
            # shared or remembered between two time lines must not confuse them
            tw = objs[draw(st.sampled_from(prev))]
            t0 = datetime(*tw["start"])
            t1 = t0.replace(hour=draw(st.integers(0, 23))) if draw(st.booleans()) else \
                t0 + timedelta(hours=draw(st.integers(-30, 30)))
            objs[u_]["start"] = [t1.year, t1.month, t1.day, t1.hour]
            k_ = len(tw["starts"])
            vals = draw(st.lists(eighths(), min_size=k_, max_size=k_))
            if all(v == 0 for v in vals):
                vals[0] = 2.0
            objs[u_]["starts"] = vals
            if c != tw["country"]:
                objs[c]["timezone"] = objs[tw["country"]]["timezone"]
    # display names are chosen by users and may collide (two jobs called "upload"): now and then two objects of one class
    # get the same display name (spec keys stay unique and are what the harness joins on)
    if draw(st.floats(0, 1)) < same_names:
        groups = {}
        for n_, e_ in objs.items():
            fam = "job" if e_["cls"] in S.JOB_CLS else "server" if e_["cls"] in S.SERVER_CLS else e_["cls"]
            groups.setdefault(fam, []).append(n_)
        multi = sorted(k_ for k_, v_ in groups.items() if len(v_) >= 2)
        for fam in draw(st.lists(st.sampled_from(multi), min_size=1, max_size=3, unique=True)) if multi else []:
            pair = draw(st.lists(st.sampled_from(groups[fam]), min_size=2, max_size=2, unique=True))
            for n_ in pair:
                objs[n_]["name"] = "same %s name" % fam
    return {"objs": objs, "system": up_names[:n_ups], "sharing": sharing}


# ------------------------------------------------------------------------------------------------ edits

FACTORS = [0.01, 0.1, 0.5, 2.0, 3.0, 10.0, 100.0, 1.0]
UNIT_FAMILIES = [["B", "kB", "MB", "GB", "TB"], ["ms", "s", "min", "hour", "day", "year"], ["mW", "W", "kW"],
                 ["g", "kg", "tonne"], ["g/kWh", "kg/kWh", "kg/MWh"], ["kWh/GB", "Wh/MB", "kWh/TB"],
                 ["W/TB", "kW/PB", "mW/GB"], ["kg/TB", "g/GB"], ["hour/day", "min/hour"], ["W/gpu", "kW/gpu"],
                 ["GB/gpu", "MB/gpu"], ["kg/gpu", "g/gpu"], ["1/s", "1/min"], ["cpu_core*s/GB", "cpu_core*s/MB"],
                 ["dimensionless", "percent"]]
_ALT_CACHE = {}


def unit_alternatives(unit):
    """Other units of the same family (empty when the unit has no family here)."""
    if unit not in _ALT_CACHE:
        from efootprint.constants.units import u as _u
        try:
            uu = _u(unit).units
        except Exception:
            _ALT_CACHE[unit] = []
            return []
        out = []
        for fam in UNIT_FAMILIES:
            if any(_u(x).units == uu for x in fam):
                out = [x for x in fam if _u(x).units != uu]
                break
        _ALT_CACHE[unit] = out
    return _ALT_CACHE[unit]


def live_names(spec):
    """Names that exist in the live model (usage patterns only when in the system)."""
    return [n for n, e in spec["objs"].items() if e["cls"] != "UsagePattern" or n in spec["system"]]


ZERO_OK = {"user_time_spent", "data_transferred", "data_stored", "base_storage_need", "idle_power",
           "base_ram_consumption", "base_compute_consumption", "carbon_footprint_fabrication",
           "carbon_footprint_fabrication_per_storage_capacity", "power", "power_per_storage_capacity", "ram_needed",
           "compute_needed", "average_carbon_intensity", "bandwidth_energy_intensity", "fraction_of_usage_time"}


@st.composite
def quantity_edit(draw, spec, names=None, again=None):
    """``again``: (obj, attr) pairs edited earlier in the history; re-editing one of them (accumulation, aliasing and
    'second edit is lost' defects need the same input to change twice) is drawn with probability 0.3."""
    if names is None:
        names = [n for n in live_names(spec) if S.quantity_inputs(spec["objs"][n]["cls"])]
        # most edits go to objects the system actually uses (an edit of an unused object changes nothing)
        used = S.spec_reachable(spec)
        if draw(st.floats(0, 1)) < 0.85 and any(n in used for n in names):
            names = [n for n in names if n in used]
    again = [x for x in (again or []) if x[0] in names]
    zeros = sorted((n_, a_) for n_ in names for a_ in S.quantity_inputs(spec["objs"][n_]["cls"])
                   if isinstance(spec["objs"][n_].get(a_), list) and spec["objs"][n_][a_][0] == 0)
    force_fresh = False
    if again and draw(st.floats(0, 1)) < 0.3:
        n, a = draw(st.sampled_from(again))
    elif zeros and draw(st.floats(0, 1)) < 0.15:
        # an input that is currently zero gets a value: what was empty so far comes to life
        n, a = draw(st.sampled_from(zeros))
        force_fresh = True
    else:
        n = draw(st.sampled_from(sorted(names)))
        a = draw(st.sampled_from(S.quantity_inputs(spec["objs"][n]["cls"])))
    e = spec["objs"][n]
    cls = e["cls"]
    cur = e.get(a) or S.default_quantity(cls, a)
    mode = draw(st.sampled_from(["factor", "factor", "factor", "fresh", "fresh", "reexpress", "zero", "unit_only"]))
    if force_fresh:
        mode = "fresh"
    if mode == "zero":
        # inputs for which zero is a meaningful value (no user time, nothing stored, no idle power, ...)
        if a in ZERO_OK and cur[0] != 0:
            return dict(op="q", obj=n, attr=a, val=[0.0, cur[1]])
        mode = "factor"
    if mode == "unit_only":
        # the same number in another unit (50 W -> 50 kW): a real change although the magnitudes are equal
        alts = [x for x in unit_alternatives(cur[1]) if x not in ("year", "day", "PB", "kW/PB")] \
            if a not in ("fixed_nb_of_instances", "server_utilization_rate", "data_replication_factor",
                         "power_usage_effectiveness") else []
        if alts and cur[0] != 0:
            nu = draw(st.sampled_from(alts))
            val = [cur[0], nu]
            if a in ("user_time_spent", "request_duration", "video_duration"):
                hours = val[0] * {"ms": 1 / 3.6e6, "s": 1 / 3600.0, "min": 1 / 60.0, "hour": 1.0}.get(nu, 1.0)
                if hours > 48:
                    val = [48.0, "hour"]
            return dict(op="q", obj=n, attr=a, val=val)
        mode = "factor"
    if mode == "reexpress":
        # the same physical value written in another unit of its family: an edit that must change nothing
        alts = unit_alternatives(cur[1])
        if alts:
            from efootprint.constants.units import u as _u
            nu = draw(st.sampled_from(alts))
            return dict(op="q", obj=n, attr=a, val=[float((cur[0] * _u(cur[1])).to(_u(nu)).magnitude), nu],
                        reexpress=True)
        mode = "factor"
    if mode == "fresh":
        try:
            val = draw(qrange(cls, a))
        except KeyError:
            mode = "factor"
    if mode == "factor":
        f = draw(st.sampled_from(FACTORS))
        val = [float("%.6g" % (cur[0] * f)), cur[1]]
        if a in ("user_time_spent", "request_duration", "video_duration"):
            # repeated x100 edits must not grow durations without bound: the library loops once per hour of duration,
            # and a 20 000-hour step is neither realistic nor distinguishable from a hang within the watchdog
            hours = val[0] * {"s": 1 / 3600.0, "second": 1 / 3600.0, "min": 1 / 60.0, "minute": 1 / 60.0,
                              "hour": 1.0, "h": 1.0, "day": 24.0}.get(val[1], 1.0)
            if hours > 48:
                val = [48.0, "hour"]
        if a == "server_utilization_rate":
            val[0] = min(val[0], 1.0)
        if a == "data_replication_factor":
            val[0] = max(val[0], 1.0)
    return dict(op="q", obj=n, attr=a, val=val)


@st.composite
def hourly_edit(draw, spec):
    up = draw(st.sampled_from(spec["system"]))
    n = len(spec["objs"][up]["starts"])
    if draw(st.floats(0, 1)) < 0.25:
        # the same values on other dates (a pure re-dating of the usage)
        cur = spec["objs"][up]["start"]
        t = datetime(*cur) + timedelta(hours=draw(st.sampled_from([1, 5, 24, 24 * 7, -3, 24 * 30])))
        return dict(op="hourly", obj=up, start=[t.year, t.month, t.day, t.hour], starts=list(spec["objs"][up]["starts"]))
    vals = draw(st.lists(eighths(), min_size=n, max_size=n))
    if all(v == 0 for v in vals):
        vals[0] = 3.0
    start = spec["objs"][up]["start"] if draw(st.booleans()) else draw(start_dates())
    return dict(op="hourly", obj=up, start=start, starts=vals)


@st.composite
def tz_edit(draw, spec):
    c = draw(st.sampled_from(sorted(S.names_of(spec, "Country"))))
    return dict(op="tz", obj=c, zone=draw(st.sampled_from(ZONES)))


@st.composite
def choice_edit(draw, spec):
    cands = []
    for n in live_names(spec):
        e = spec["objs"][n]
        if e["cls"] in S.SERVER_CLS:
            cands.append((n, "server_type"))
        if e["cls"] == "VideoStreamingJob":
            cands.append((n, "resolution"))
        if e["cls"] == "WebApplicationJob":
            cands.append((n, "implementation_details"))
        if e["cls"] == "BoaviztaCloudServer":
            cands.append((n, "instance_type"))
        if e["cls"] == "GenAIModel":
            cands.append((n, "model_name"))
            cands.append((n, "provider+model_name"))
            cands.append((n, "model+tokens"))
    n, a = draw(st.sampled_from(sorted(cands)))
    e = spec["objs"][n]
    if a in ("model_name", "provider+model_name", "model+tokens"):
        return draw(genai_model_edit(spec, n, a))
    if a == "server_type":
        allowed = ["autoscaling", "on-premise", "serverless"]
        if e.get("fixed_nb_of_instances") is not None:
            allowed = ["on-premise"]
        val = draw(st.sampled_from(allowed))
    elif a == "resolution":
        val = draw(st.sampled_from(RESOLUTIONS))
    elif a == "implementation_details":
        tech = spec["objs"][e["service"]]["technology"]
        val = draw(st.sampled_from([u for t, u in web_choices() if t == tech]))
    else:
        prov = e["provider"]
        val = draw(st.sampled_from([i for p, i in boavizta_choices() if p == prov]))
    return dict(op="choice", obj=n, attr=a, val=val)


@st.composite
def genai_model_edit(draw, spec, n, a):
    """Another model for a GenAIModel service: of the same provider (one assignment) or of any provider (provider and
    model in one update, the only supported way); ``a`` = model_name | provider+model_name | model+tokens."""
    e = spec["objs"][n]
    if True:
        # models that fit in the GPU server's memory (a bigger one makes the target model invalid: both sides reject)
        srv = spec["objs"][e["server"]]
        cap_gb = srv.get("compute", [4.0])[0] * srv.get("ram_per_gpu", [80.0])[0] * \
            srv.get("server_utilization_rate", [1.0])[0]
        fits = [(p_, m_) for p_, m_, tot in genai_choices() if 1.2 * tot * 1e9 * 16 / 8e9 < cap_gb * 0.9] \
            or [(e["provider"], e["model_name"])]
        if a in ("model_name", "model+tokens"):
            same = [m_ for p_, m_ in fits if p_ == e["provider"]] or [e["model_name"]]
            ed = dict(op="choice", obj=n, attr="model_name", val=draw(st.sampled_from(same)))
            jobs = sorted(j for j, je in spec["objs"].items() if je["cls"] == "GenAIJob" and je["service"] == n)
            if a == "model+tokens" and jobs:
                j = draw(st.sampled_from(jobs))
                cur = spec["objs"][j].get("output_token_count") or S.default_quantity("GenAIJob", "output_token_count")
                return dict(op="group", edits=[ed, dict(op="q", obj=j, attr="output_token_count",
                                                        val=[cur[0] * 2, cur[1]])])
            return ed
        p_, m_ = draw(st.sampled_from(fits))
        if p_ == e["provider"]:
            return dict(op="choice", obj=n, attr="model_name", val=m_)
        # the provider can only change together with a compatible model, in one update
        return dict(op="group", edits=[dict(op="choice", obj=n, attr="provider", val=p_),
                                       dict(op="choice", obj=n, attr="model_name", val=m_)])


def _keeps_profile(spec, after):
    """For the non-sharing profiles: no job may become reachable from two usage patterns of the system."""
    if spec.get("sharing") == "jobs_too":
        return True
    for n, e in after["objs"].items():
        if e["cls"] in S.JOB_CLS:
            ups = set(S.ups_of_job(after, n))
            if len(ups) > 1:
                return False
    return True


@st.composite
def link_edit(draw, spec):
    cands = []
    for n in live_names(spec):
        e = spec["objs"][n]
        for a, classes in S.META[e["cls"]]["links"].items():
            if e["cls"] in S.SERVICE_CLS:
                continue   # a service stays on its server
            pool = [t for t in S.names_of(spec, classes) if t != e.get(a)]
            if a == "storage":
                # a storage belongs to one server: only storages no server uses
                used = {x["storage"] for x in spec["objs"].values() if x["cls"] in S.SERVER_CLS}
                pool = [t for t in pool if t not in used]
            if a == "service":
                pool = [t for t in pool if spec["objs"][t]["cls"] == spec["objs"][e["service"]]["cls"]]
                if e["cls"] == "WebApplicationJob":
                    impl = e.get("implementation_details", "default")
                    pool = [t for t in pool if (spec["objs"][t]["technology"], impl) in web_choices()]
            if pool:
                cands.append((n, a, tuple(sorted(pool))))
    if not cands:
        return draw(quantity_edit(spec))
    n, a, pool = draw(st.sampled_from(sorted(cands)))
    ed = dict(op="link", obj=n, attr=a, target=draw(st.sampled_from(pool)))
    if not _keeps_profile(spec, E.apply_spec(spec, ed)):
        return draw(quantity_edit(spec))
    return ed


LIST_METHODS = ["append", "insert", "extend", "iadd", "imul", "pop", "remove", "delitem", "setitem", "clear",
                "delslice"]


@st.composite
def list_edit(draw, spec, mutators=True, noops=True):
    cands = []
    for n in live_names(spec):
        e = spec["objs"][n]
        for a, classes in S.META[e["cls"]]["lists"].items():
            cands.append((n, a, classes))
    n, a, classes = draw(st.sampled_from(sorted(cands)))
    used = S.spec_reachable(spec)
    empties = sorted(c for c in cands if c[0] in used and not spec["objs"][c[0]][c[1]])
    fill_empty = bool(empties) and draw(st.floats(0, 1)) < 0.3
    if fill_empty:
        # an empty list of an object of the system gets its first element(s)
        n, a, classes = draw(st.sampled_from(empties))
    cur = spec["objs"][n][a]
    pool = sorted(S.names_of(spec, classes))
    if a == "jobs":
        pool = [j for j in pool]
    min_len = 1 if a == "devices" else 0
    if fill_empty and pool:
        m = draw(st.sampled_from(["append", "iadd", "extend", "insert", "assign"]))
        x = draw(st.sampled_from(pool))
        if m == "assign" or not mutators:
            ed = dict(op="list", obj=n, attr=a, targets=[x])
        else:
            ed = dict(op="listop", obj=n, attr=a, method=m,
                      args={"append": [x], "iadd": [[x]], "extend": [[x]], "insert": [0, x]}[m])
        if _keeps_profile(spec, E.apply_spec(spec, ed)):
            return ed
    if not mutators or draw(st.floats(0, 1)) < 0.2:
        tg = draw(st.lists(st.sampled_from(pool), min_size=max(min_len, 0), max_size=3))
        if a == "devices" and not tg:
            tg = [pool[0]]
        ed = dict(op="list", obj=n, attr=a, targets=tg)
    else:
        m = draw(st.sampled_from(LIST_METHODS))
        if m in ("pop", "remove", "delitem", "setitem", "delslice") and not cur:
            m = "append"
        if m == "delslice" and len(cur) - 1 < min_len:
            m = "append"
        if m in ("pop", "remove", "delitem") and len(cur) <= min_len:
            m = "append"
        if m == "clear" and min_len > 0:
            m = "append"
        if m == "append":
            args = [draw(st.sampled_from(pool))]
        elif m == "insert":
            args = [draw(st.integers(0, len(cur))), draw(st.sampled_from(pool))]
        elif m in ("extend", "iadd"):
            args = [draw(st.lists(st.sampled_from(pool), min_size=0 if noops else 1, max_size=2))]
            arg_as = draw(st.sampled_from(["list", "list", "list", "tuple", "iterator", "generator"]))
        elif m == "imul":
            args = [draw(st.sampled_from([1, 2, 3, 0] if noops and min_len == 0 else [1, 2, 3] if noops else [2, 3]))]
            if len(cur) > 3:
                args = [1] if noops else [2]
        elif m == "delslice":
            a_ = draw(st.integers(0, len(cur) - 1))
            b_ = draw(st.integers(a_, len(cur)))
            if min_len and b_ - a_ >= len(cur):
                b_ = a_
            args = [a_, b_]
        elif m == "pop":
            args = [] if draw(st.booleans()) else [draw(st.integers(0, len(cur) - 1))]
        elif m == "remove":
            args = [draw(st.sampled_from(cur))]
        elif m == "delitem":
            args = [draw(st.integers(0, len(cur) - 1))]
        elif m == "setitem":
            args = [draw(st.integers(0, len(cur) - 1)), draw(st.sampled_from(pool))]
        else:
            args = []
        ed = dict(op="listop", obj=n, attr=a, method=m, args=args)
        if m in ("extend", "iadd") and arg_as != "list":
            ed["arg_as"] = arg_as
        elif m in ("append", "insert", "setitem", "extend", "iadd") and draw(st.floats(0, 1)) < 0.3:
            ed["arg_as"] = "own"       # elements that are already in the list are passed as taken from it
    if not _keeps_profile(spec, E.apply_spec(spec, ed)):
        return draw(quantity_edit(spec))
    return ed


@st.composite
def up_edit(draw, spec):
    spare = [n for n in S.names_of(spec, "UsagePattern") if n not in spec["system"]]
    can_remove = len(spec["system"]) > 1
    if spare and (not can_remove or draw(st.booleans())):
        ed = dict(op="add_up", up=draw(st.sampled_from(sorted(spare))),
                  how=draw(st.sampled_from(["assign", "append", "iadd"])))
        if not _keeps_profile(spec, E.apply_spec(spec, ed)):
            return draw(quantity_edit(spec))
        return ed
    if can_remove:
        return dict(op="remove_up", up=draw(st.sampled_from(spec["system"])),
                    how=draw(st.sampled_from(["assign", "pop", "delitem"])))
    return draw(hourly_edit(spec))


@st.composite
def simple_edit(draw, spec, weights=None, again=None):
    kinds = weights or ["q", "q", "q", "hourly", "tz", "choice", "link", "link", "list", "list"]
    k = draw(st.sampled_from(kinds))
    if k == "q":
        return draw(quantity_edit(spec, again=again))
    if k == "hourly":
        return draw(hourly_edit(spec))
    if k == "tz":
        return draw(tz_edit(spec))
    if k == "choice":
        return draw(choice_edit(spec))
    if k == "link":
        return draw(link_edit(spec))
    return draw(list_edit(spec, mutators=False))


@st.composite
def group_edit(draw, spec):
    subs = []
    seen = set()
    cur = spec
    for _ in range(draw(st.integers(2, 3))):
        e = draw(simple_edit(cur))
        parts = e["edits"] if e["op"] == "group" else [e]
        if any((x["obj"], E._attr_of(x)) in seen for x in parts):
            continue
        for x in parts:
            seen.add((x["obj"], E._attr_of(x)))
            subs.append(x)
        cur = E.apply_spec(cur, e)
    if len(subs) < 2:
        return subs[0]
    return dict(op="group", edits=subs)


@st.composite
def any_edit(draw, spec, mutators=True, noops=True, again=None):
    k = draw(st.sampled_from(["simple"] * 6 + ["listop"] * 4 + ["up", "group"]))
    if k == "simple":
        return draw(simple_edit(spec, again=again))
    if k == "listop":
        return draw(list_edit(spec, mutators=mutators, noops=noops))
    if k == "up":
        return draw(up_edit(spec))
    return draw(group_edit(spec))


@st.composite
def histories(draw, spec, min_steps=1, max_steps=8, undo_prob=0.2, mutators=True, noops=True, refusals=0.08):
    """A list of edits, each drawn against the spec the previous ones lead to. Undo steps are explicit
    inverse edits tagged with ``undo_of``. With probability ``refusals`` a step is an edit built to be refused while
    the model is being recomputed (tagged ``provoke``): the model then stays as it was, and so does the spec here (the
    executor decides from what really happens)."""
    from pbt.props import c15
    hist = []
    cur = spec
    before = []     # spec before each edit
    n = draw(st.integers(min_steps, max_steps))
    for i in range(n):
        if hist and draw(st.floats(0, 1)) < undo_prob and "undo_of" not in hist[-1]:
            inv = E.inverse(before[-1], hist[-1])
            if inv is not None:
                inv = dict(inv, undo_of=len(hist) - 1)
                before.append(cur)
                cur = E.apply_spec(cur, inv)
                hist.append(inv)
                continue
        if refusals and draw(st.floats(0, 1)) < refusals:
            e = draw(c15.provoking_edit(cur))
            if e.get("provoke"):
                before.append(cur)
                hist.append(e)
                continue
        again = sorted({(x["obj"], x["attr"]) for x in hist if x["op"] == "q"})
        e = draw(any_edit(cur, mutators=mutators, noops=noops, again=again))
        before.append(cur)
        cur = E.apply_spec(cur, e)
        hist.append(e)
    return hist
