"""Identity snapshots: which *objects* a model holds (inputs, links, list slots, calculated values, dict entries) and
the value graph as a multiset of edges between object identities. Used by C05, C14, C15."""
from collections import Counter

from . import env, snap, spec as S

env.import_efootprint()

from efootprint.abstract_modeling_classes.explainable_object_base_class import ExplainableObject  # noqa: E402
from efootprint.abstract_modeling_classes.explainable_object_dict import ExplainableObjectDict  # noqa: E402
from efootprint.abstract_modeling_classes.list_linked_to_modeling_obj import ListLinkedToModelingObj  # noqa: E402
from efootprint.abstract_modeling_classes.contextual_modeling_object_attribute import (  # noqa: E402
    ContextualModelingObjectAttribute)

BOOKKEEPING = set(snap.SYSTEM_BOOKKEEPING) | {"name", "id", "trigger_modeling_updates",
                                              "contextual_modeling_obj_containers", "short_name", "impact_url"}


def values_of(obj):
    """(attr, key, value object) for every explainable value held by a modeling object."""
    for a, v in obj.__dict__.items():
        if a in BOOKKEEPING:
            continue
        if isinstance(v, ExplainableObjectDict):
            for k, x in v.items():
                yield a, (S.key_of(k) if hasattr(k, "name") else str(k)), x
        elif isinstance(v, ExplainableObject):
            yield a, None, v


def identity_snapshot(reach):
    """{'held': {(obj, attr[, key]): id}, 'links': {...}, 'reverse': {...}, 'edges': Counter}"""
    held, links, reverse = {}, {}, {}
    edges = Counter()
    keep = []      # keep referenced objects alive so that ids stay meaningful
    pending = []
    for name, obj in reach.items():
        for a, v in obj.__dict__.items():
            if a in BOOKKEEPING:
                continue
            if isinstance(v, ExplainableObjectDict):
                held[(name, a)] = id(v)
                keep.append(v)
            elif isinstance(v, ListLinkedToModelingObj):
                held[(name, a)] = id(v)
                links[(name, a)] = [(S.key_of(x), id(x)) for x in v]
                keep.append(v)
                keep.extend(list(v))
            elif isinstance(v, ContextualModelingObjectAttribute):
                links[(name, a)] = (S.key_of(v), id(v))
                keep.append(v)
        for a, k, x in values_of(obj):
            held[(name, a, k) if k is not None else (name, a)] = id(x) if k is None else id(x)
            if k is not None:
                held[(name, a, k)] = id(x)
            keep.append(x)
            for anc in x.direct_ancestors_with_id:
                pending.append(("anc", anc, x))
                keep.append(anc)
            for ch in x.direct_children_with_id:
                pending.append(("child", x, ch))
                keep.append(ch)
        reverse[name] = sorted(S.key_of(c) for c in obj.modeling_obj_containers)
        # every registered back link that is attached (a multiset: hidden duplicates are damage too)
        reverse[(name, "#attached back links")] = sorted(
            (S.key_of(w.modeling_obj_container), str(w.attr_name_in_mod_obj_container))
            for w in obj.contextual_modeling_obj_containers if w.modeling_obj_container is not None)
    # The graph users inspect is keyed by value ids ('<attr>-in-<object id>'; all entries of a dict share one): edges are
    # compared at that level, together with whether both ends are objects currently held by the model.
    held_ids = set(held.values())
    for kind, a, b in pending:
        edges[(kind, _vid(a), _vid(b), id(a) in held_ids, id(b) in held_ids)] += 1
    return {"held": held, "links": links, "reverse": reverse, "edges": edges, "_keep": keep}


def _vid(x):
    try:
        return x.id
    except Exception:
        return "<detached %s>" % getattr(x, "label", "?")


def describe_graph(reach):
    """id -> 'obj.attr[key]' for messages."""
    out = {}
    for name, obj in reach.items():
        for a, k, x in values_of(obj):
            out[id(x)] = "%s.%s%s" % (name, a, "[%s]" % k if k is not None else "")
    return out


def compare_identity(a, b, names=None):
    """Differences between two identity snapshots (list of strings)."""
    out = []
    for part in ("held", "links", "reverse"):
        for k in sorted(set(a[part]) | set(b[part]), key=str):
            if a[part].get(k) != b[part].get(k):
                if part == "held":
                    out.append("%s is no longer the same object" % (k,) if k in a[part] and k in b[part]
                               else "%s %s" % (k, "appeared" if k in b[part] else "disappeared"))
                elif part == "links":
                    out.append("link %s: %s -> %s" % (k, _lk(a[part].get(k)), _lk(b[part].get(k))))
                else:
                    out.append("%s is reported as used by %s instead of %s" % (k, b[part].get(k), a[part].get(k)))
    if a["edges"] != b["edges"]:
        lost = a["edges"] - b["edges"]
        gained = b["edges"] - a["edges"]
        nm = names or {}

        def fmt(e):
            return "%s %s%s -> %s%s" % (e[0], e[1], "" if e[3] else "(not held)", e[2], "" if e[4] else "(not held)")
        out.append("dependency graph changed: %d edge(s) lost %s, %d gained %s" % (
            sum(lost.values()), [fmt(e) for e in list(lost)[:3]], sum(gained.values()),
            [fmt(e) for e in list(gained)[:3]]))
    return out


def _lk(v):
    if v is None:
        return None
    if isinstance(v, tuple):
        return v[0]
    return [x[0] for x in v]
