"""Plain-data *spec* of a model (the reference model of the inputs) and its construction through the public API.

A spec is JSON-serialisable:
  {"objs": {name: {"cls": <class name>, <attr>: [m, "unit"] | "<choice or link name>" | [names...], ...}},
   "system": [usage pattern names in the system], "order": optional creation order}
Names are unique and are the join key between a live system and anything rebuilt from the spec.
"""
import copy
from datetime import datetime

from . import env

env.import_efootprint()

import pytz  # noqa: E402
from efootprint.abstract_modeling_classes.explainable_objects import (  # noqa: E402
    EmptyExplainableObject, ExplainableQuantity, ExplainableHourlyQuantities)
from efootprint.abstract_modeling_classes.source_objects import SourceValue, SourceObject, SourceHourlyValues  # noqa: E402
from efootprint.builders.hardware.boavizta_cloud_server import BoaviztaCloudServer  # noqa: E402
from efootprint.builders.services.generative_ai_ecologits import GenAIModel, GenAIJob  # noqa: E402
from efootprint.builders.services.video_streaming import VideoStreaming, VideoStreamingJob  # noqa: E402
from efootprint.builders.services.web_application import WebApplication, WebApplicationJob  # noqa: E402
from efootprint.builders.time_builders import create_hourly_usage_df_from_list  # noqa: E402
from efootprint.constants.units import u  # noqa: E402
from efootprint.core.country import Country  # noqa: E402
from efootprint.core.hardware.device import Device  # noqa: E402
from efootprint.core.hardware.gpu_server import GPUServer  # noqa: E402
from efootprint.core.hardware.network import Network  # noqa: E402
from efootprint.core.hardware.server import Server  # noqa: E402
from efootprint.core.hardware.storage import Storage  # noqa: E402
from efootprint.core.system import System  # noqa: E402
from efootprint.core.usage.job import Job  # noqa: E402
from efootprint.core.usage.usage_journey import UsageJourney  # noqa: E402
from efootprint.core.usage.usage_journey_step import UsageJourneyStep  # noqa: E402
from efootprint.core.usage.usage_pattern import UsagePattern  # noqa: E402

CLASSES = {c.__name__: c for c in [
    Storage, Server, GPUServer, BoaviztaCloudServer, VideoStreaming, WebApplication, GenAIModel, Job,
    VideoStreamingJob, WebApplicationJob, GenAIJob, UsageJourneyStep, UsageJourney, Device, Country, Network,
    UsagePattern]}

# links: attr -> allowed target classes; lists: attr -> allowed element classes; choices: str-valued inputs
SERVER_CLS = ("Server", "GPUServer", "BoaviztaCloudServer")
JOB_CLS = ("Job", "VideoStreamingJob", "WebApplicationJob", "GenAIJob")
SERVICE_CLS = ("VideoStreaming", "WebApplication", "GenAIModel")
META = {
    "Storage": dict(links={}, lists={}, choices=[]),
    "Server": dict(links={"storage": ("Storage",)}, lists={}, choices=["server_type"]),
    "GPUServer": dict(links={"storage": ("Storage",)}, lists={}, choices=["server_type"]),
    "BoaviztaCloudServer": dict(links={"storage": ("Storage",)}, lists={},
                                choices=["server_type", "provider", "instance_type"]),
    "VideoStreaming": dict(links={"server": ("Server", "BoaviztaCloudServer")}, lists={}, choices=[]),
    "WebApplication": dict(links={"server": ("Server", "BoaviztaCloudServer")}, lists={}, choices=["technology"]),
    "GenAIModel": dict(links={"server": ("GPUServer",)}, lists={}, choices=["provider", "model_name"]),
    "Job": dict(links={"server": ("Server", "BoaviztaCloudServer")}, lists={}, choices=[]),
    "VideoStreamingJob": dict(links={"service": ("VideoStreaming",)}, lists={}, choices=["resolution"]),
    "WebApplicationJob": dict(links={"service": ("WebApplication",)}, lists={}, choices=["implementation_details"]),
    "GenAIJob": dict(links={"service": ("GenAIModel",)}, lists={}, choices=[]),
    "UsageJourneyStep": dict(links={}, lists={"jobs": JOB_CLS}, choices=[]),
    "UsageJourney": dict(links={}, lists={"uj_steps": ("UsageJourneyStep",)}, choices=[]),
    "Device": dict(links={}, lists={}, choices=[]),
    "Country": dict(links={}, lists={}, choices=[]),
    "Network": dict(links={}, lists={}, choices=[]),
    "UsagePattern": dict(links={"usage_journey": ("UsageJourney",), "network": ("Network",),
                                "country": ("Country",)}, lists={"devices": ("Device",)}, choices=[]),
}
# creation rank (dependencies first)
RANK = {"Storage": 0, "Server": 1, "GPUServer": 1, "BoaviztaCloudServer": 1, "VideoStreaming": 2,
        "WebApplication": 2, "GenAIModel": 2, "Job": 3, "VideoStreamingJob": 3, "WebApplicationJob": 3,
        "GenAIJob": 3, "UsageJourneyStep": 4, "UsageJourney": 5, "Device": 6, "Country": 6, "Network": 6,
        "UsagePattern": 7}

_QI_CACHE = {}


def quantity_inputs(cls_name):
    """Names of the quantity-valued constructor parameters of a class (those with a quantity default)."""
    if cls_name not in _QI_CACHE:
        if cls_name == "UsagePattern" or cls_name == "UsageJourney":
            _QI_CACHE[cls_name] = []
        else:
            dv = CLASSES[cls_name].default_values()
            _QI_CACHE[cls_name] = [k for k, v in dv.items() if isinstance(v, ExplainableQuantity)]
    return _QI_CACHE[cls_name]


def default_quantity(cls_name, attr):
    v = CLASSES[cls_name].default_values()[attr]
    return [float(v.value.magnitude), str(v.value.units)]


def Q(val):
    """[m, unit] or [m, unit, [source name, source link]] -> SourceValue"""
    m, unit = val[0], val[1]
    if len(val) > 2 and val[2]:
        from efootprint.abstract_modeling_classes.explainable_object_base_class import Source
        return SourceValue(m * u(unit), Source(val[2][0], val[2][1]))
    return SourceValue(m * u(unit))


def _sourced(value, src):
    """SourceObject for a text / time zone input, with the user's own source when the spec carries one."""
    if src:
        from efootprint.abstract_modeling_classes.explainable_object_base_class import Source
        return SourceObject(value, Source(src[0], src[1]))
    return SourceObject(value)


def hourly(start, values):
    return SourceHourlyValues(create_hourly_usage_df_from_list(list(values), datetime(*start)))


def deps_of(entry):
    meta = META[entry["cls"]]
    out = []
    for a in meta["links"]:
        if a in entry:
            out.append(entry[a])
    for a in meta["lists"]:
        out.extend(entry.get(a, []))
    return out


def default_order(spec):
    names = [n for n, e in spec["objs"].items() if e["cls"] != "UsagePattern" or n in spec["system"]]
    return sorted(names, key=lambda n: RANK[spec["objs"][n]["cls"]])  # stable: insertion order within a rank


import weakref  # noqa: E402

# harness-side registry: which spec key an object was built from. Display names may collide (two jobs called "upload"),
# spec keys never do. Keyed by identity (modeling objects compare and hash by their id *string*, which two objects of
# different builds can share).
_KEYS = {}


def register_key(obj, key):
    oid = id(obj)

    def _gone(_ref, oid=oid):
        _KEYS.pop(oid, None)
    _KEYS[oid] = (weakref.ref(obj, _gone), key)


def key_of(x):
    x = getattr(x, "_value", x)
    entry = _KEYS.get(id(x))
    if entry is not None and entry[0]() is x:
        return entry[1]
    return x.name


def kwargs_for(entry, objs):
    """Constructor keyword arguments (without name) for a spec entry."""
    cls_name = entry["cls"]
    meta = META[cls_name]
    kw = {}
    for a in quantity_inputs(cls_name):
        if a in entry:
            kw[a] = Q(entry[a])
    if entry.get("fixed_nb_of_instances") is not None:
        kw["fixed_nb_of_instances"] = Q(entry["fixed_nb_of_instances"])
    for a in meta["choices"]:
        if a in entry:
            kw[a] = _sourced(entry[a], entry.get(a + "@source"))
    for a in meta["links"]:
        kw[a] = objs[entry[a]]
    for a in meta["lists"]:
        kw[a] = [objs[t] for t in entry[a]]
    if cls_name == "Country":
        kw["short_name"] = entry.get("short_name", "XX")
        kw.setdefault("average_carbon_intensity", Q([85.0, "g/kWh"]))
        kw["timezone"] = _sourced(pytz.timezone(entry["timezone"]), entry.get("timezone@source"))
    if cls_name == "UsagePattern":
        kw["hourly_usage_journey_starts"] = hourly(entry["start"], entry["starts"])
    return kw


def construct_with(name, cls_name, kw):
    cls = CLASSES[cls_name]
    if cls_name in ("Country", "UsagePattern", "UsageJourney"):
        return cls(name, **kw)
    return cls.from_defaults(name, **kw)


def construct(name, entry, objs):
    """Create one object through its public constructor (``from_defaults`` for omitted parameters). ``name`` is the
    spec key; the object's display name is entry['name'] when given (display names may collide)."""
    kw = kwargs_for(entry, objs)
    if entry["cls"] == "Country":
        kw["short_name"] = entry.get("short_name", name.upper())
    obj = construct_with(entry.get("name", name), entry["cls"], kw)
    register_key(obj, name)
    return obj


def build(spec, id_seed=None, with_system=True):
    """The 'system freshly built from these inputs'. Returns {name: object} (+ 'system')."""
    if id_seed is not None:
        env.set_id_seed(id_seed)
    objs = {}
    order = spec.get("order") or default_order(spec)
    pending = list(order)
    for n in default_order(spec):
        if n not in pending:
            pending.append(n)

    def make(n, stack=()):
        if n in objs:
            return
        assert n not in stack, f"cyclic spec at {n}"
        e = spec["objs"][n]
        for d in deps_of(e):
            make(d, stack + (n,))
        objs[n] = construct(n, e, objs)

    for n in pending:
        e = spec["objs"][n]
        if e["cls"] == "UsagePattern" and n not in spec["system"]:
            continue
        make(n)
    if with_system:
        objs["system"] = System("system", [objs[n] for n in spec["system"]])
    return objs


def reachable(objs):
    """Objects reachable from the system, by name (what C01 quantifies over)."""
    system = objs["system"]
    out = {"system": system}
    for o in system.all_linked_objects:
        o = getattr(o, "_value", o)
        k = key_of(o)
        if k in out and out[k] is not o:
            raise AssertionError(f"two distinct reachable objects with key {k}")
        out[k] = o
    return out


def clone(spec):
    return copy.deepcopy(spec)


# ---------------------------------------------------------------------------------------------------------
# structural queries on the spec (the reference model of the links)

def ups_of_system(spec):
    return list(spec["system"])


def journey_jobs(spec, uj):
    out = []
    for s in spec["objs"][uj]["uj_steps"]:
        out.extend(spec["objs"][s]["jobs"])
    return out


def job_server(spec, job):
    e = spec["objs"][job]
    if "server" in e:
        return e["server"]
    return spec["objs"][e["service"]]["server"]


def ups_of_job(spec, job):
    """Usage patterns *of the system* whose journey contains the job."""
    return [up for up in spec["system"] if job in journey_jobs(spec, spec["objs"][up]["usage_journey"])]


def names_of(spec, classes):
    if isinstance(classes, str):
        classes = (classes,)
    return [n for n, e in spec["objs"].items() if e["cls"] in classes]


def referrers(spec, target):
    """(name, attr) of every object of the spec that references ``target`` (usage patterns: only live ones)."""
    out = []
    for n, e in spec["objs"].items():
        if e["cls"] == "UsagePattern" and n not in spec["system"]:
            continue
        meta = META[e["cls"]]
        for a in meta["links"]:
            if e.get(a) == target:
                out.append((n, a))
        for a in meta["lists"]:
            if target in e.get(a, []):
                out.append((n, a))
    if target in spec["system"]:
        out.append(("system", "usage_patterns"))
    return out


def spec_reachable(spec):
    """Names reachable from the system according to the spec (independent of the library's own walk)."""
    seen = set()
    for up in spec["system"]:
        e = spec["objs"][up]
        seen.add(up)
        seen.update([e["usage_journey"], e["network"], e["country"]] + list(e["devices"]))
        for s in spec["objs"][e["usage_journey"]]["uj_steps"]:
            seen.add(s)
            for j in spec["objs"][s]["jobs"]:
                seen.add(j)
    servers = set()
    for j in [n for n in seen if spec["objs"][n]["cls"] in JOB_CLS]:
        servers.add(job_server(spec, j))
    for srv in servers:
        seen.add(srv)
        seen.add(spec["objs"][srv]["storage"])
        for n, e in spec["objs"].items():
            if e["cls"] in SERVICE_CLS and e["server"] == srv:
                seen.add(n)
    return seen
