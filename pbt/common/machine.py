"""Executor of edit histories on a live model, with the differential oracle 'live == freshly built from the
same final inputs' (shared by C01, C07, C08, C13, C15, C18)."""
import traceback

from . import env, spec as S, snap, edits as E

env.import_efootprint()

from efootprint.core.all_classes_in_order import CANONICAL_COMPUTATION_ORDER  # noqa: E402


def class_rank(obj):
    for i, c in enumerate(CANONICAL_COMPUTATION_ORDER):
        if isinstance(obj, c):
            return i
    return len(CANONICAL_COMPUTATION_ORDER)


def canonical_keys(objs):
    """(name, attr) of all calculated attributes in canonical class order then declared attribute order."""
    out = []
    for name, obj in sorted(objs.items(), key=lambda kv: (class_rank(kv[1]), kv[0])):
        for a in obj.calculated_attributes:
            out.append((name, a))
    return out


def totals(system):
    out = {}
    for kind, d in (("energy", system.total_energy_footprint_sum_over_period),
                    ("fabrication", system.total_fabrication_footprint_sum_over_period)):
        for cat, v in d.items():
            out[(kind, cat)] = float(v.value.to("kg").magnitude)
    return out


def reported_totals(system, which):
    out = {}
    for kind in ("energy", "fabrication"):
        d = getattr(system, "%s_total_%s_footprints_sum_over_period" % (which, kind))
        for cat, v in d.items():
            out[(kind, cat)] = float(v.value.to("kg").magnitude)
    return out


def totals_close(a, b, rtol=1e-9):
    if set(a) != set(b):
        return False
    return all(abs(a[k] - b[k]) <= rtol * max(abs(a[k]), abs(b[k])) + 1e-12 for k in a)


def value_ids(objs):
    """id() of every calculated attribute value (dict entries included): to tell 'not recomputed' from 'recomputed
    wrongly'."""
    out = {}
    for name, obj in objs.items():
        for a in obj.calculated_attributes:
            v = getattr(obj, a, None)
            if isinstance(v, dict):
                for k, x in v.items():
                    out[(name, a, S.key_of(k) if hasattr(k, "name") else str(k))] = id(x)
            out[(name, a)] = id(v)
    return out


def triggers(spec_before, spec_after, edit):
    """Named predicates over spec+edit used in finding signatures."""
    t = []
    for sp in (spec_before, spec_after):
        for n, e in sp["objs"].items():
            if e["cls"] in S.JOB_CLS and len(set(S.ups_of_job(sp, n))) >= 2:
                t.append("job_in_2+_usage_patterns")
                break
    return sorted(set(t))


class Hang(BaseException):
    """The library did not return within the CPU-time watchdog (an infinite loop, not slowness)."""


WATCHDOG_CPU_S = 90.0   # an edit or a build normally costs 0.1-0.5 s CPU


class watchdog:
    """CPU-time watchdog (ITIMER_VIRTUAL: independent of machine load) around one library call."""

    def __init__(self, seconds=WATCHDOG_CPU_S):
        self.seconds = seconds

    def _fire(self, signum, frame):
        raise Hang("no return after %.0f s of CPU time" % self.seconds)

    def __enter__(self):
        import signal
        self.old = signal.signal(signal.SIGVTALRM, self._fire)
        # nestable: an enclosing watchdog (the per-case guard of the runner) is suspended and re-armed on exit
        self.outer_left, _ = signal.setitimer(signal.ITIMER_VIRTUAL, self.seconds)

    def __exit__(self, *a):
        import signal
        left, _ = signal.setitimer(signal.ITIMER_VIRTUAL, 0)
        signal.signal(signal.SIGVTALRM, self.old)
        if self.outer_left > 0:
            signal.setitimer(signal.ITIMER_VIRTUAL, max(0.01, self.outer_left - (self.seconds - left)))
        return False


class Step:
    """What happened at one step of a history (handed to per-property hooks)."""
    __slots__ = ("index", "edit", "spec_before", "spec_after", "status", "live", "fresh", "snap_live",
                 "snap_fresh", "diffs", "exc")


def short_tb(limit=5):
    return traceback.format_exc(limit=limit)[-1500:]


def run_history(case, ctx, on_step=None, compare_fresh=True, check_totals=True, check_undo=True,
                kind_prefix="", on_failed_edit=None):
    """Execute ``case`` = {spec, id_seed, history}. Reports violations through ctx. Returns a summary dict."""
    spec = case["spec"]
    hist = case["history"]
    id_seed = case.get("id_seed", 0)
    summary = {"status": "ok", "accepted": 0, "changed": 0, "steps": 0, "labels": []}
    try:
        live = S.build(spec, id_seed=id_seed)
    except Exception as ex:
        summary["status"] = "invalid_initial"
        summary["exc"] = str(ex)[:200]
        return summary
    system = live["system"]
    t0 = totals(system)
    cur = spec
    snaps_before = []   # calc snapshots before each edit (for undo)
    specs_before = []   # the inputs before each edit, as the executor knows them
    for i, e in enumerate(hist):
        summary["steps"] += 1
        try:
            after = E.apply_spec(cur, e)
        except E.Inapplicable:
            summary["status"] = "inapplicable"
            return summary
        reach_before = S.reachable(live)
        snap_before = snap.snapshot(reach_before)
        ids_before = value_ids(reach_before)
        t_before = totals(system)
        snaps_before.append(snap_before)
        specs_before.append(cur)
        sig_base = {"edit": E.kind(cur, e), "triggers": triggers(cur, after, e)}
        case_i = {"spec": spec, "id_seed": id_seed, "history": hist[:i + 1]}
        try:
            with watchdog():
                E.apply_live(live, e, cur)
        except Hang as ex:
            ctx.violation(kind_prefix + "edit_hang", case_i,
                          "edit %s did not return: %s\n%s" % (E.describe(e), ex, short_tb(8)),
                          dict(sig_base, kind=kind_prefix + "edit_hang"))
            summary["status"] = "edit_hang"
            return summary
        except Exception as ex:
            exc_txt = "%s: %s" % (type(ex).__name__, str(ex)[:300])
            try:
                S.build(after, id_seed=id_seed + 1000 + i)
                fresh_ok = True
            except Exception:
                fresh_ok = False
            if not fresh_ok:
                summary["labels"].append("edit_rejected_target_invalid")
                if on_failed_edit is None:
                    # a legitimate refusal: the model must be as it was, and the history goes on from there
                    summary["refused"] = summary.get("refused", 0) + 1
                    continue
                # C15: the failed edit must be recoverable; the hook re-assigns the previous value and checks
                if on_failed_edit(i, e, cur, live, ex, case_i) is False:
                    summary["status"] = "violation"
                    return summary
                summary["failed_edits"] = summary.get("failed_edits", 0) + 1
                continue
            try:
                unchanged = not snap.compare(snap.snapshot(S.reachable(live)), snap_before)
            except Exception:
                unchanged = False
            if unchanged and isinstance(ex, (ValueError, PermissionError)) and \
                    "modeling_obj_container" not in str(ex):
                summary["labels"].append("edit_rejected_clean")
                continue
            ctx.violation(kind_prefix + "edit_crash", case_i,
                          "edit %s raised %s although a system built from the target inputs is valid; "
                          "live model %s\n%s" % (E.describe(e), exc_txt,
                                                 "unchanged" if unchanged else "changed", short_tb()),
                          dict(sig_base, kind=kind_prefix + "edit_crash", exc=type(ex).__name__))
            summary["status"] = "edit_crash"
            return summary
        summary["accepted"] += 1
        prev, cur = cur, after
        reach = S.reachable(live)
        names_expected = S.spec_reachable(cur) | {"system"}
        if set(reach) != names_expected:
            ctx.violation(kind_prefix + "reachable_set", case_i,
                          "objects reachable from the system %s differ from the spec's %s after %s" % (
                              sorted(set(reach) - names_expected), sorted(names_expected - set(reach)),
                              E.describe(e)),
                          dict(sig_base, kind=kind_prefix + "reachable_set"))
            summary["status"] = "violation"
            return summary
        snap_live = snap.snapshot(reach)
        changed = bool(snap.compare(snap_live, snap_before))
        if changed:
            summary["changed"] += 1
        st = Step()
        st.index, st.edit, st.spec_before, st.spec_after, st.live = i, e, prev, after, live
        st.snap_live, st.fresh, st.snap_fresh, st.diffs = snap_live, None, None, []
        if compare_fresh:
            try:
                fresh = S.build(cur, id_seed=id_seed + 1000 + i)
            except Exception as ex:
                ctx.violation(kind_prefix + "accepted_but_fresh_rejects", case_i,
                              "edit %s was accepted but a system built from the same inputs raises %s" % (
                                  E.describe(e), str(ex)[:300]),
                              dict(sig_base, kind=kind_prefix + "accepted_but_fresh_rejects"))
                summary["status"] = "violation"
                return summary
            reach_fresh = S.reachable(fresh)
            snap_fresh = snap.snapshot(reach_fresh)
            st.fresh, st.snap_fresh = fresh, snap_fresh
            diffs = snap.compare(snap_live, snap_fresh)
            st.diffs = diffs
            if diffs:
                dk = {k for k, _ in diffs}
                first = next((k for k in canonical_keys(reach) if k in dk), diffs[0][0])
                why = dict(diffs)[first]
                cls_attr = "%s.%s" % (type(reach[first[0]]).__name__, first[1]) if first[0] in reach else str(first)
                ids_now = value_ids(reach)
                not_recomputed = ids_now.get(first) == ids_before.get(first) and first in ids_before
                kind = "not_recomputed" if not_recomputed else "stale_value"
                ctx.violation(kind_prefix + kind, case_i,
                              "after %s (step %d) %d calculated attribute(s) differ from a fresh build; first in "
                              "canonical order: %s %s (%s)" % (E.describe(e), i, len(diffs), first, why,
                                                               "same object as before the edit" if not_recomputed
                                                               else "recomputed"),
                              dict(sig_base, kind=kind_prefix + kind, first_stale=cls_attr))
                summary["status"] = "violation"
                return summary
        if check_undo and "undo_of" in e and e["undo_of"] == i - 1 and cur != specs_before[i - 1]:
            # the generator did not know the real state (an edit it expected to be refused was accepted): this step
            # does not bring the inputs back to what they were, so it is an ordinary edit
            summary["labels"].append("undo_not_exact")
        elif check_undo and "undo_of" in e and e["undo_of"] == i - 1:
            d = snap.compare(snap_live, snaps_before[i - 1])
            if d:
                ctx.violation(kind_prefix + "undo_mismatch", case_i,
                              "undoing %s did not restore the previous values: %s" % (
                                  E.describe(hist[i - 1]), d[:3]),
                              dict(sig_base, kind=kind_prefix + "undo_mismatch"))
                summary["status"] = "violation"
                return summary
            summary["labels"].append("undo_checked")
        if check_totals:
            ini = reported_totals(system, "initial")
            if not totals_close(ini, t0):
                ctx.violation(kind_prefix + "initial_totals", case_i,
                              "initial totals reported %s differ from totals at creation %s" % (ini, t0),
                              dict(sig_base, kind=kind_prefix + "initial_totals"))
                summary["status"] = "violation"
                return summary
            if changed:
                prev = reported_totals(system, "previous")
                if not totals_close(prev, t_before):
                    ctx.violation(kind_prefix + "previous_totals", case_i,
                                  "after %s the system reports previous totals %s but the totals just before the "
                                  "edit were %s" % (E.describe(e), prev, t_before),
                                  dict(sig_base, kind=kind_prefix + "previous_totals"))
                    summary["status"] = "violation"
                    return summary
                summary["labels"].append("totals_checked")
        if on_step is not None:
            if on_step(st) is False:
                summary["status"] = "violation"
                return summary
    summary["final_spec"] = cur
    summary["live"] = live
    return summary


def minimise_history(violation, budget, ctx_factory, replay):
    """ddmin on the history (then trailing spec objects), keeping the *signature* of the violation."""
    from .runner import ddmin, jdump
    case = violation["case"]
    want = jdump(violation["signature"])
    best = [violation]

    def fails_with(hist):
        c = dict(case, history=hist)
        ctx = ctx_factory()
        ctx.known = []
        replay(c, ctx)
        for b in ctx.violations.values():
            if jdump(b["signature"]) == want:
                best[0] = b["cases"][0]
                return True
        return False

    hist = ddmin(case["history"], fails_with, budget)
    v = best[0]
    if len(v["case"]["history"]) > len(hist):
        v = dict(v, case=dict(v["case"], history=hist))
    return v
