"""Persistent build worker (its own PYTHONHASHSEED): reads pickled {spec, id_seed} from stdin, answers with the
pickled snapshot of the freshly built system (or the exception text)."""
import pickle
import struct
import sys


def main():
    from pbt.common import env, spec as S, snap
    env.import_efootprint()
    inp, out = sys.stdin.buffer, sys.stdout.buffer
    out.write(b"READY\n")
    out.flush()
    while True:
        head = inp.read(4)
        if len(head) < 4:
            return
        (n,) = struct.unpack(">I", head)
        req = pickle.loads(inp.read(n))
        try:
            objs = S.build(req["spec"], id_seed=req.get("id_seed", 0))
            res = {"snap": snap.snapshot(S.reachable(objs)), "hashseed": sys.flags.hash_randomization and "random"}
        except Exception as ex:   # noqa
            res = {"error": "%s: %s" % (type(ex).__name__, str(ex)[:300])}
        data = pickle.dumps(res)
        out.write(struct.pack(">I", len(data)))
        out.write(data)
        out.flush()


if __name__ == "__main__":
    main()
