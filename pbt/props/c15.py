"""C15 — A failed recomputation can always be recovered from."""
import copy

from hypothesis import strategies as st

from pbt.common import env, runner, snap, fresh as F, spec as S, gen as G, edits as E, machine as M
from pbt.props import c08

env.import_efootprint()

ID = "C15"
TECHNIQUE = "property-based testing (Hypothesis) over fault sequences: histories interleaving accepted edits with edits constructed to make each raising update function fail; after each failure the previous value is re-assigned and the model is compared with a fresh build, its graph checked, and the history continues under the C01 oracle"
LEVEL_TEXT = ("generated systems and histories with 1-3 provoked recomputation failures (base RAM / compute above "
              "capacity, utilisation lowered, fixed instance count below the need for servers and storages, negative "
              "cumulative storage) at different points of the canonical order, interleaved with ordinary edits; recovery "
              "by re-assigning the previous value; model == fresh build of the inputs before the failed edit; later "
              "edits == fresh builds")
LEVEL_NOTE = "the reference for 'this edit must fail' is that a fresh build of the target inputs raises"
RULE = ("Hypothesis draws a system spec and a history of 3-9 steps, each an ordinary edit (C01 algebra) or a provoking "
        "edit: base_ram_consumption / base_compute_consumption x50, server_utilization_rate x0.001, server or storage "
        "fixed_nb_of_instances = 0 or 1 with server_type on-premise, job data_stored made strongly negative, "
        "base_storage_need set to 0 under deleting jobs, storage_capacity / ram divided by 1e6 under a fixed count, or "
        "an in-place list operation (append / += / extend / insert) putting a job that deletes 10^6 TB into a live "
        "step, followed half of the time by another in-place operation on the same list. "
        "When the live edit raises and a fresh build of the target inputs raises too, the previous value is "
        "re-assigned (inverse edit); then snapshot(live) == snapshot(build(inputs before)), the structural graph "
        "invariants of C08 hold, and the following edits are checked against fresh builds like in C01. Non-trivial = "
        "history with >=1 provoked failure, recovery, and >=1 later accepted edit.")
ASSUMPTIONS = ["a provoked edit that does not make the fresh build fail is simply an ordinary edit (checked as in C01)"]
BUDGET = {"quick": dict(examples=14, max_steps=7, wall_guard_s=600),
          "thorough": dict(examples=200, max_steps=10, wall_guard_s=3600)}


@st.composite
def provoking_edit(draw, spec):
    comp = F.spec_components(spec)
    kinds = []
    if comp["servers"]:
        kinds += ["base_ram", "base_compute", "utilization", "fixed_server", "tiny_ram"]
    if comp["storages"]:
        kinds += ["fixed_storage", "tiny_capacity", "no_base"]
    plain_jobs = [j for j in comp["jobs"] if spec["objs"][j]["cls"] == "Job"]
    if plain_jobs:
        kinds += ["negative_store"]
    steps_ = sorted(n for n in S.spec_reachable(spec) if spec["objs"][n]["cls"] == "UsageJourneyStep")
    if "job_purge" in spec["objs"] and steps_ and S.job_server(spec, "job_purge") in comp["servers"]:
        kinds += ["list_purge", "list_purge"]
    if not kinds:
        return draw(G.quantity_edit(spec))
    k = draw(st.sampled_from(kinds))
    if k == "list_purge":
        # an in-place list operation that fails during recomputation: a job deleting far more than is stored
        stp = draw(st.sampled_from(steps_))
        m = draw(st.sampled_from(["append", "iadd", "extend", "insert"]))
        args = {"append": ["job_purge"], "iadd": [["job_purge"]], "extend": [["job_purge"]],
                "insert": [0, "job_purge"]}[m]
        return dict(op="listop", obj=stp, attr="jobs", method=m, args=args, provoke="list_purge")
    if k in ("base_ram", "base_compute", "utilization", "fixed_server", "tiny_ram"):
        s = draw(st.sampled_from(comp["servers"]))
        e = spec["objs"][s]
        cls = e["cls"]
        if k == "base_ram":
            ram = e.get("ram") or (S.default_quantity(cls, "ram") if "ram" in S.quantity_inputs(cls) else [128.0, "GB"])
            return dict(op="q", obj=s, attr="base_ram_consumption", val=[ram[0] * 50 + 10000, "GB"], provoke=k)
        if k == "base_compute":
            cpu = e.get("compute") or S.default_quantity(cls, "compute") if "compute" in S.quantity_inputs(cls) \
                else [24.0, "cpu_core"]
            unit = "gpu" if cls == "GPUServer" else "cpu_core"
            return dict(op="q", obj=s, attr="base_compute_consumption", val=[cpu[0] * 50 + 1000, unit], provoke=k)
        if k == "utilization":
            return dict(op="q", obj=s, attr="server_utilization_rate", val=[1e-9, "dimensionless"], provoke=k)
        if k == "tiny_ram" and "ram" in S.quantity_inputs(cls):
            return dict(op="group", edits=[dict(op="choice", obj=s, attr="server_type", val="on-premise"),
                                           dict(op="fixed", obj=s, val=[1.0, "dimensionless"]),
                                           dict(op="q", obj=s, attr="ram", val=[1e-3, "GB"])], provoke=k)
        return dict(op="group", edits=[dict(op="choice", obj=s, attr="server_type", val="on-premise"),
                                       dict(op="fixed", obj=s, val=[float(draw(st.sampled_from([0, 1]))),
                                                                    "dimensionless"])], provoke="fixed_server")
    if k in ("fixed_storage", "tiny_capacity", "no_base"):
        stn = draw(st.sampled_from(comp["storages"]))
        if k == "fixed_storage":
            return dict(op="fixed", obj=stn, val=[float(draw(st.sampled_from([0, 1]))), "dimensionless"], provoke=k)
        if k == "tiny_capacity":
            return dict(op="group", edits=[dict(op="fixed", obj=stn, val=[3.0, "dimensionless"]),
                                           dict(op="q", obj=stn, attr="storage_capacity", val=[1.0, "kB"])],
                        provoke=k)
        return dict(op="q", obj=stn, attr="base_storage_need", val=[0.0, "TB"], provoke=k)
    j = draw(st.sampled_from(plain_jobs))
    return dict(op="q", obj=j, attr="data_stored", val=[-float(draw(st.sampled_from([5, 500, 50000]))), "GB"],
                provoke="negative_store")


@st.composite
def cases(draw, max_steps):
    spec = draw(G.specs(max_len=24, long_prob=0.0))
    plain = [s_ for s_ in F.spec_components(spec)["servers"] if spec["objs"][s_]["cls"] != "GPUServer"]
    if plain:
        # a spare job that deletes far more than any storage holds: putting it in a step makes recomputation fail
        spec["objs"]["job_purge"] = {"cls": "Job", "server": plain[0], "data_stored": [-1e6, "TB"],
                                     "request_duration": [1.0, "s"]}
    hist, cur = [], spec
    n = draw(st.integers(3, max_steps))
    for i in range(n):
        last = hist[-1] if hist else None
        if last is not None and last.get("provoke") == "list_purge" and draw(st.booleans()):
            # right after a failed in-place operation: another in-place operation on the very same list
            pool = sorted(S.names_of(cur, S.JOB_CLS))
            pool = [j for j in pool if j != "job_purge"] or pool
            e = dict(op="listop", obj=last["obj"], attr="jobs",
                     method=draw(st.sampled_from(["append", "iadd", "extend"])),
                     args=[draw(st.sampled_from(pool))])
            if e["method"] != "append":
                e["args"] = [[e["args"][0]]]
            if not G._keeps_profile(cur, E.apply_spec(cur, e)):
                e = draw(G.any_edit(cur))
        elif draw(st.floats(0, 1)) < 0.45:
            e = draw(provoking_edit(cur))
        else:
            e = draw(G.any_edit(cur))
        hist.append(e)
        # the spec model only advances if the edit is accepted; whether it is depends on the live run, so the
        # generator conservatively treats provoking edits as refused (the executor re-derives everything anyway)
        if "provoke" not in e:
            cur = E.apply_spec(cur, e)
    return {"spec": spec, "id_seed": draw(st.integers(0, 2 ** 20)), "history": hist}


def check(case, ctx):
    labels = []
    state = {"failed": 0, "after_failure_accepted": 0}

    def on_failed_edit(i, e, cur, live, exc, case_i):
        labels.append("provoked_failure=" + e.get("provoke", "ordinary"))
        sig = {"edit": E.kind(cur, e), "provoke": e.get("provoke", "ordinary")}
        if not isinstance(exc, ValueError):
            labels.append("failure_type=" + type(exc).__name__)
        inv = E.inverse(cur, e)
        try:
            if inv is not None:
                with M.watchdog():
                    E.apply_live(live, inv, cur)
        except BaseException as ex2:
            ctx.violation("recovery_failed", case_i,
                          "after the failed edit %s (%s), re-assigning the previous value raised %s: %s" % (
                              E.describe(e), str(exc)[:120], type(ex2).__name__, str(ex2)[:200]),
                          dict(sig, kind="recovery_failed"))
            return False
        fresh, fexc = F.build_case({"spec": cur, "id_seed": case["id_seed"] + 500 + i})
        if fresh is None:
            return True
        d = snap.compare(snap.snapshot(S.reachable(live)), snap.snapshot(S.reachable(fresh)))
        if d:
            ctx.violation("not_restored", case_i,
                          "after the failed edit %s and re-assignment of the previous value, %d calculated value(s) "
                          "differ from the model before the failure; first %s %s" % (E.describe(e), len(d), d[0][0],
                                                                                     d[0][1]),
                          dict(sig, kind="not_restored", attr=d[0][0][1]))
            return False
        probs = c08.structural_problems(live, check_json=False)
        if probs:
            ctx.violation("graph_damaged_after_failure", case_i,
                          "after the failed edit %s and recovery: %s" % (E.describe(e), probs[0][1]),
                          dict(sig, kind="graph_damaged_after_failure", what=probs[0][0]))
            return False
        state["failed"] += 1
        return True

    def on_step(st_):
        if state["failed"]:
            state["after_failure_accepted"] += 1
        return True

    # the executor applies each edit to the spec it has reached, so histories stay applicable even though the
    # generator did not advance its spec on provoking edits
    summary = M.run_history(case, ctx, on_step=on_step, on_failed_edit=on_failed_edit, kind_prefix="")
    labels.append("status=" + summary["status"])
    labels += summary["labels"]
    ctx.case(case, state["failed"] >= 1 and state["after_failure_accepted"] >= 1, labels,
             sample={"history": [dict(e) for e in case["history"]][:8]})


def replay(case, ctx):
    check(case, ctx)


def minimise(violation, budget, ctx_factory):
    return M.minimise_history(violation, budget, ctx_factory, replay)


def run_shard(ctx):
    runner.run_given(ctx, cases(ctx.budget["max_steps"]), lambda c: check(c, ctx), ctx.budget["examples"])
