"""C16 — Links between objects stay consistent under every kind of edit."""
import copy

from hypothesis import strategies as st

from pbt.common import env, runner, snap, fresh as F, spec as S, gen as G, edits as E, machine as M

env.import_efootprint()

from efootprint.core.system import System  # noqa: E402

ID = "C16"
TECHNIQUE = "model-based property testing (Hypothesis): histories of link edits and list operations (present/absent/duplicate/no-op arguments, deletions, cross-system attempts) executed on the live model and on the plain-data spec; forward links and all reverse look-ups compared after every step"
LEVEL_TEXT = ("generated systems and histories of attribute assignments, list assignments, every list mutator, deletions "
              "and attempts to share objects between two systems; the spec (plain Python lists and names) is the "
              "reference model for list content, containers, derived reverse look-ups and system membership")
LEVEL_NOTE = "the reference model is the harness' spec with Python list semantics"
RULE = ("Hypothesis draws a system spec (short series) and a history of 1-10 steps among: link assignment, list "
        "assignment, list mutators (append, insert, extend, +=, *=, pop, remove, del, item assignment, clear) with "
        "present / duplicate / no-op arguments given as list, tuple, iterator or generator, in-place operations that "
        "fail during recomputation (a job deleting 10^6 TB) followed by another operation on the same list, invalid "
        "list operations (remove absent, pop/del/insert out of range), "
        "self_delete of referenced and unreferenced objects, add/remove usage pattern, and attempts to put an object "
        "of a second system into the first (and vice versa), directly or through a newly created job hosted on the other "
        "system's server. After every step: list contents equal Python-list "
        "semantics on the spec; modeling_obj_containers of every object equal the spec's referrers; server.jobs, "
        "storage.jobs, job.usage_patterns/networks, journey.usage_patterns, network.usage_patterns/jobs, X.systems "
        "equal the spec's reachability; rejected operations change nothing; no object has two systems. Non-trivial = "
        "history with >=1 list mutator and >=1 reverse look-up that changed.")
ASSUMPTIONS = ["a usage pattern removed from the system is self_delete()d by the caller (documented usage)",
               "a storage belongs to one server; devices lists are never emptied"]
BUDGET = {"quick": dict(examples=30, max_steps=8, wall_guard_s=600),
          "thorough": dict(examples=220, max_steps=12, wall_guard_s=3600)}


@st.composite
def invalid_listop(draw, spec):
    cands = []
    for n in G.live_names(spec):
        e = spec["objs"][n]
        for a, classes in S.META[e["cls"]]["lists"].items():
            cands.append((n, a, classes))
    n, a, classes = draw(st.sampled_from(sorted(cands)))
    cur = spec["objs"][n][a]
    pool = sorted(S.names_of(spec, classes))
    absent = [x for x in pool if x not in cur]
    kind = draw(st.sampled_from(["remove_absent", "pop_range", "del_range", "setitem_range"]))
    if kind == "remove_absent" and absent:
        return dict(op="bad_listop", obj=n, attr=a, method="remove", args=[draw(st.sampled_from(absent))])
    if kind == "pop_range":
        return dict(op="bad_listop", obj=n, attr=a, method="pop", args=[len(cur) + draw(st.integers(0, 2))])
    if kind == "del_range":
        return dict(op="bad_listop", obj=n, attr=a, method="delitem", args=[len(cur) + draw(st.integers(0, 2))])
    return dict(op="bad_listop", obj=n, attr=a, method="setitem", args=[len(cur) + draw(st.integers(0, 2)),
                                                                        draw(st.sampled_from(pool))])


@st.composite
def delete_edit(draw, spec):
    # objects that a spare (not yet created) usage pattern will need are left alone
    spare_refs = set()
    for n, e in spec["objs"].items():
        if e["cls"] == "UsagePattern" and n not in spec["system"]:
            spare_refs.update([e["usage_journey"], e["network"], e["country"]] + list(e["devices"]))
    names = sorted(n for n in G.live_names(spec) if n not in spare_refs)
    return dict(op="self_delete", obj=draw(st.sampled_from(names)))


@st.composite
def cross_edit(draw, spec):
    return dict(op="cross_system", how=draw(st.sampled_from(["append_job", "assign_journey", "new_system",
                                                              "assign_devices", "assign_server", "assign_live_list",
                                                              "assign_live_list_jobs", "extend_with_live_list",
                                                              "append_fresh_job", "assign_fresh_job"])),
                pick=draw(st.integers(0, 1000)))


@st.composite
def cases(draw, max_steps):
    spec = draw(G.specs(max_len=6, long_prob=0.0))
    plain = [s_ for s_ in F.spec_components(spec)["servers"] if spec["objs"][s_]["cls"] != "GPUServer"]
    if plain and draw(st.booleans()):
        # a spare job deleting far more than is stored: linking it into the system fails during recomputation,
        # i.e. after the links were changed, and must be rolled back
        spec["objs"]["job_purge"] = {"cls": "Job", "server": plain[0], "data_stored": [-1e6, "TB"],
                                     "request_duration": [1.0, "s"]}
    hist = []
    cur = spec
    for _ in range(draw(st.integers(1, max_steps))):
        k = draw(st.sampled_from(["link", "link", "list", "listop", "listop", "listop", "up", "bad", "delete", "cross",
                                  "purge"]))
        steps_ = sorted(n for n in S.spec_reachable(cur) if cur["objs"][n]["cls"] == "UsageJourneyStep")
        last = hist[-1] if hist else None
        if last is not None and last.get("purge") and draw(st.floats(0, 1)) < 0.6:
            # right after the failed in-place operation: a valid in-place operation on the very same list
            pool = [j for j in sorted(S.names_of(cur, S.JOB_CLS)) if j != "job_purge"]
            m = draw(st.sampled_from(["append", "iadd", "extend", "insert", "pop"]))
            j = draw(st.sampled_from(pool))
            args = {"append": [j], "iadd": [[j]], "extend": [[j]], "insert": [0, j], "pop": []}[m]
            e = dict(op="listop", obj=last["obj"], attr="jobs", method=m, args=args)
            if m == "pop" and not cur["objs"][last["obj"]]["jobs"]:
                e = dict(e, method="append", args=[j])
        elif last is not None and last.get("op") == "listop" and not last.get("purge") and \
                last["obj"] in cur["objs"] and len(set(cur["objs"][last["obj"]][last["attr"]])) < \
                len(cur["objs"][last["obj"]][last["attr"]]) and draw(st.floats(0, 1)) < 0.4:
            # the list holds an element twice: one occurrence is taken out again
            lst_ = cur["objs"][last["obj"]][last["attr"]]
            dup = sorted(x for x in set(lst_) if lst_.count(x) > 1)
            x = draw(st.sampled_from(dup))
            m = draw(st.sampled_from(["remove", "pop", "delitem", "setitem"]))
            pos = draw(st.sampled_from([i_ for i_, y in enumerate(lst_) if y == x]))
            other = [y for y in lst_ if y != x]
            args = {"remove": [x], "pop": [pos], "delitem": [pos],
                    "setitem": [pos, other[0] if other else x]}[m]
            e = dict(op="listop", obj=last["obj"], attr=last["attr"], method=m, args=args)
            if m == "setitem" and draw(st.booleans()):
                e["arg_as"] = "own"
        elif k == "purge":
            if "job_purge" not in cur["objs"] or not steps_ or "job_purge" in S.spec_reachable(cur):
                e = draw(G.list_edit(cur, mutators=True, noops=True))
            else:
                m = draw(st.sampled_from(["append", "iadd", "extend", "insert", "setitem"]))
                stp = draw(st.sampled_from(steps_))
                args = {"append": ["job_purge"], "iadd": [["job_purge"]], "extend": [["job_purge"]],
                        "insert": [0, "job_purge"], "setitem": [0, "job_purge"]}[m]
                if m == "setitem" and not cur["objs"][stp]["jobs"]:
                    m, args = "append", ["job_purge"]
                e = dict(op="listop", obj=stp, attr="jobs", method=m, args=args, purge=True)
        elif k == "link":
            e = draw(G.link_edit(cur))
        elif k == "list":
            e = draw(G.list_edit(cur, mutators=False))
        elif k == "listop":
            e = draw(G.list_edit(cur, mutators=True, noops=True))
        elif k == "up":
            e = draw(G.up_edit(cur))
        elif k == "bad":
            e = draw(invalid_listop(cur))
        elif k == "delete":
            e = draw(delete_edit(cur))
        else:
            e = draw(cross_edit(cur))
        hist.append(e)
        if e.get("purge"):
            pass                           # refused (negative cumulative storage): the model is unchanged
        elif e["op"] not in ("bad_listop", "self_delete", "cross_system"):
            cur = E.apply_spec(cur, e)
        elif e["op"] == "self_delete" and not S.referrers(cur, e["obj"]):
            cur = copy.deepcopy(cur)      # an unreferenced object really disappears
            del cur["objs"][e["obj"]]
    return {"spec": spec, "id_seed": draw(st.integers(0, 2 ** 20)), "history": hist}


# ------------------------------------------------------------------------------------------------ the model

def model_state(spec):
    """Everything C16 talks about, derived from the spec alone."""
    objs = spec["objs"]
    live = [n for n in objs if objs[n]["cls"] != "UsagePattern" or n in spec["system"]]
    reach = S.spec_reachable(spec)
    st_ = {"lists": {}, "links": {}, "containers": {}, "lookups": {}, "systems": {}}
    for n in live:
        e = objs[n]
        meta = S.META[e["cls"]]
        for a in meta["lists"]:
            st_["lists"][(n, a)] = list(e[a])
        for a in meta["links"]:
            st_["links"][(n, a)] = e[a]
        st_["containers"][n] = sorted({r[0] for r in S.referrers(spec, n)})
        st_["systems"][n] = ["system"] if n in reach else []
    st_["lists"][("system", "usage_patterns")] = list(spec["system"])
    for n in live:
        e = objs[n]
        if e["cls"] in S.SERVER_CLS:
            st_["lookups"][(n, "jobs")] = sorted(j for j in live if objs[j]["cls"] in S.JOB_CLS and
                                                 S.job_server(spec, j) == n)
        if e["cls"] == "Storage":
            srvs = [s for s in live if objs[s]["cls"] in S.SERVER_CLS and objs[s]["storage"] == n]
            st_["lookups"][(n, "jobs")] = sorted({j for s in srvs for j in live if objs[j]["cls"] in S.JOB_CLS and
                                                  S.job_server(spec, j) == s})
        if e["cls"] in S.JOB_CLS:
            ups = sorted(set(S.ups_of_job(spec, n)))
            st_["lookups"][(n, "usage_patterns")] = ups
            st_["lookups"][(n, "networks")] = sorted({objs[u_]["network"] for u_ in ups})
        if e["cls"] == "UsageJourney":
            st_["lookups"][(n, "usage_patterns")] = sorted(u_ for u_ in spec["system"]
                                                           if objs[u_]["usage_journey"] == n)
        if e["cls"] == "UsageJourneyStep":
            st_["lookups"][(n, "usage_journeys")] = sorted(j for j in live if objs[j]["cls"] == "UsageJourney" and
                                                           n in objs[j]["uj_steps"])
        if e["cls"] == "Network":
            ups = sorted(u_ for u_ in spec["system"] if objs[u_]["network"] == n)
            st_["lookups"][(n, "usage_patterns")] = ups
            st_["lookups"][(n, "jobs")] = sorted({j for u_ in ups for j in
                                                  S.journey_jobs(spec, objs[u_]["usage_journey"])})
        if e["cls"] == "Country":
            st_["lookups"][(n, "usage_patterns")] = sorted(u_ for u_ in spec["system"] if objs[u_]["country"] == n)
    return st_


def live_state(objs, spec):
    st_ = {"lists": {}, "links": {}, "containers": {}, "lookups": {}, "systems": {}}
    names = [n for n in objs if n != "system"]
    for n in names:
        o = objs[n]
        e = spec["objs"][n]
        meta = S.META[e["cls"]]
        for a in meta["lists"]:
            st_["lists"][(n, a)] = [S.key_of(x) for x in getattr(o, a)]
        for a in meta["links"]:
            st_["links"][(n, a)] = S.key_of(getattr(o, a))
        st_["containers"][n] = sorted(S.key_of(c) for c in o.modeling_obj_containers)
        st_["systems"][n] = sorted(S.key_of(s) for s in o.systems)
    st_["lists"][("system", "usage_patterns")] = [S.key_of(x) for x in objs["system"].usage_patterns]
    for n in names:
        o = objs[n]
        cls = spec["objs"][n]["cls"]
        for a in {"Storage": ["jobs"], "UsageJourney": ["usage_patterns"], "UsageJourneyStep": ["usage_journeys"],
                  "Network": ["usage_patterns", "jobs"], "Country": ["usage_patterns"]}.get(
                cls, ["jobs"] if cls in S.SERVER_CLS else (["usage_patterns", "networks"] if cls in S.JOB_CLS else [])):
            vals = [S.key_of(x) for x in getattr(o, a)]
            st_["lookups"][(n, a)] = sorted(set(vals))
            if len(vals) != len(set(vals)) and a != "jobs":
                st_["lookups"][(n, a + "#duplicates")] = sorted(vals)
    return st_


def diff_states(model, live):
    out = []
    for part in ("lists", "links", "containers", "lookups", "systems"):
        for k in sorted(set(model[part]) | set(live[part]), key=str):
            if model[part].get(k) != live[part].get(k):
                out.append((part, "%s of %s is %s, the model says %s" % (part[:-1], k, live[part].get(k),
                                                                          model[part].get(k))))
    return out


def second_system(id_seed):
    """A small independent system B (names prefixed b_)."""
    spec = {"objs": {
        "b_st": {"cls": "Storage"}, "b_srv": {"cls": "Server", "storage": "b_st", "server_type": "autoscaling"},
        "b_job": {"cls": "Job", "server": "b_srv"}, "b_step": {"cls": "UsageJourneyStep", "jobs": ["b_job"]},
        "b_uj": {"cls": "UsageJourney", "uj_steps": ["b_step"]}, "b_dev": {"cls": "Device"},
        "b_cty": {"cls": "Country", "timezone": "UTC"}, "b_net": {"cls": "Network"},
        "b_up": {"cls": "UsagePattern", "usage_journey": "b_uj", "devices": ["b_dev"], "network": "b_net",
                 "country": "b_cty", "start": [2025, 1, 1, 0], "starts": [1.0, 2.0, 3.0]}},
        "system": ["b_up"]}
    objs = S.build(spec, id_seed=id_seed)
    return spec, objs


def check(case, ctx):
    spec = case["spec"]
    objs, exc = F.build_case(case)
    if objs is None:
        ctx.case(case, False, ["invalid_initial"])
        return
    labels = []
    cur = spec
    other = None
    mutators = lookups_changed = 0
    prev_model = model_state(cur)
    d = diff_states(prev_model, live_state(objs, cur))
    if d:
        ctx.violation("links_inconsistent", dict(case, history=[]), "fresh build: " + d[0][1],
                      {"kind": "links_inconsistent", "part": d[0][0], "edit": "none"})
        ctx.case(case, False, labels)
        return
    for i, e in enumerate(case["history"]):
        case_i = dict(case, history=case["history"][:i + 1])
        op = e["op"]
        labels.append("op=" + op + (":" + e["method"] if "method" in e else ""))
        expect_reject = False
        after = cur
        sigedit = op + (":" + e.get("method", e.get("how", "")) if op in ("listop", "bad_listop", "cross_system")
                        else "")
        if op in ("bad_listop",):
            expect_reject = True
        elif op == "self_delete":
            expect_reject = bool(S.referrers(cur, e["obj"]))
            if not expect_reject:
                # deleting an unreferenced object: it disappears from the model
                after = copy.deepcopy(cur)
                del after["objs"][e["obj"]]
        elif op == "cross_system":
            expect_reject = True
        else:
            try:
                after = E.apply_spec(cur, e)
            except E.Inapplicable:
                ctx.case(case, False, labels + ["inapplicable"])
                return
        # would the target model be computable? (a link edit may make the model invalid: capacity, storage...)
        try:
            with M.watchdog():
                if op == "bad_listop":
                    E.apply_live(objs, dict(e, op="listop"), cur)
                elif op == "self_delete":
                    objs[e["obj"]].self_delete()
                    if not expect_reject:
                        del objs[e["obj"]]
                elif op == "cross_system":
                    if other is None:
                        other = second_system(case["id_seed"] + 99)
                    bspec, b = other
                    comp = F.spec_components(cur)
                    how, pick = e["how"], e["pick"]
                    if how == "append_job" and comp["jobs"]:
                        b["b_step"].jobs.append(objs[comp["jobs"][pick % len(comp["jobs"])]])
                    elif how == "assign_journey":
                        b["b_up"].usage_journey = objs[cur["objs"][cur["system"][0]]["usage_journey"]]
                    elif how == "new_system":
                        System("systemC", [objs[cur["system"][pick % len(cur["system"])]]])
                    elif how == "assign_devices":
                        up0 = cur["system"][0]
                        objs[up0].devices = [b["b_dev"]]
                    elif how == "assign_live_list":
                        # the other system's own list object (a ListLinkedToModelingObj), not a plain list
                        objs[cur["system"][0]].devices = b["b_up"].devices
                    elif how == "assign_live_list_jobs":
                        steps_ = [n_ for n_ in S.spec_reachable(cur) if cur["objs"][n_]["cls"] == "UsageJourneyStep"]
                        if not steps_:
                            labels.append("cross_not_applicable")
                            continue
                        objs[sorted(steps_)[pick % len(steps_)]].jobs = b["b_step"].jobs
                    elif how == "extend_with_live_list":
                        b["b_up"].devices.extend(objs[cur["system"][0]].devices)
                    elif how in ("append_fresh_job", "assign_fresh_job"):
                        # an object that is in no system yet but brings along objects of the other system
                        steps_ = sorted(n_ for n_ in S.spec_reachable(cur)
                                        if cur["objs"][n_]["cls"] == "UsageJourneyStep")
                        if not steps_:
                            labels.append("cross_not_applicable")
                            continue
                        from efootprint.core.usage.job import Job
                        fresh_job = Job.from_defaults("fresh job %d" % i, server=b["b_srv"])
                        try:
                            stp_ = objs[steps_[pick % len(steps_)]]
                            if how == "append_fresh_job":
                                stp_.jobs.append(fresh_job)
                            else:
                                stp_.jobs = list(stp_.jobs) + [fresh_job]
                        except Exception:
                            fresh_job.self_delete()    # the caller discards the object it could not link
                            raise
                    elif how == "assign_server" and comp["jobs"] and any(
                            cur["objs"][j]["cls"] == "Job" for j in comp["jobs"]):
                        j = [j for j in comp["jobs"] if cur["objs"][j]["cls"] == "Job"][0]
                        objs[j].server = b["b_srv"]
                    else:
                        labels.append("cross_not_applicable")
                        continue
                else:
                    E.apply_live(objs, e, cur)
            raised = None
        except M.Hang as ex:
            ctx.violation("edit_hang", case_i, "%s did not return" % E.describe(e) if op not in (
                "self_delete", "cross_system") else op, {"kind": "edit_hang", "edit": sigedit})
            break
        except Exception as ex:
            raised = ex
        if op in ("listop", "bad_listop") or op in ("add_up", "remove_up"):
            mutators += 1
        if raised is not None:
            labels.append("raised")
            # whatever the reason, a refused operation must change nothing
            d = diff_states(prev_model, live_state(objs, cur))
            if other is not None:
                bd = diff_states(model_state(other[0]), live_state(other[1], other[0]))
                d = d + [("other_system", x[1]) for x in bd]
            if d:
                ctx.violation("rejected_operation_changed_links", case_i,
                              "%s raised %s: %s but links changed: %s" % (
                                  op if op in ("self_delete", "cross_system") else E.describe(e),
                                  type(raised).__name__, str(raised)[:150], d[0][1]),
                              {"kind": "rejected_operation_changed_links", "edit": sigedit, "part": d[0][0]})
                break
            if not expect_reject:
                # is the target model valid? if a fresh build of it also fails, the refusal is legitimate
                fresh, exc = F.build_case({"spec": after, "id_seed": 1})
                involved = {e.get("obj"), e.get("target"), e.get("up")} | set(e.get("targets", [])) | \
                    {x for x in e.get("args", []) if isinstance(x, str)}
                if fresh is not None and not (involved & (S.spec_reachable(after) | S.spec_reachable(cur))):
                    # the edit only concerns objects outside the system: a fresh build never computes them, so it
                    # cannot vouch for the target (the live model computes what it touches and may refuse)
                    labels.append("refused_outside_system")
                elif fresh is not None:
                    ctx.violation("valid_link_edit_rejected", case_i,
                                  "%s raised %s: %s although a system built with these links is valid" % (
                                      E.describe(e), type(raised).__name__, str(raised)[:200]),
                                  {"kind": "valid_link_edit_rejected", "edit": sigedit,
                                   "exc": type(raised).__name__})
                    break
                labels.append("target_invalid")
            continue
        if expect_reject:
            if op == "cross_system":
                two = [n for n, o in list(objs.items()) + list(other[1].items()) if n != "system" and
                       len(set(s.id for s in o.systems)) > 1]
                ctx.violation("object_in_two_systems", case_i,
                              "cross-system operation %s was accepted%s" % (
                                  e["how"], "; objects now in two systems: %s" % two[:4] if two else ""),
                              {"kind": "object_in_two_systems", "edit": sigedit})
            else:
                ctx.violation("invalid_operation_accepted", case_i,
                              "%s was accepted although %s" % (
                                  "self_delete(%s)" % e["obj"] if op == "self_delete" else
                                  "%s.%s.%s(%s)" % (e["obj"], e["attr"], e["method"], e["args"]),
                                  "the object is still referenced" if op == "self_delete"
                                  else "a Python list would raise"),
                              {"kind": "invalid_operation_accepted", "edit": sigedit})
            break
        cur = after
        model = model_state(cur)
        live = live_state(objs, cur)
        d = diff_states(model, live)
        if d:
            ctx.violation("links_inconsistent", case_i, "after %s: %s" % (
                E.describe(e) if op not in ("self_delete",) else "self_delete(%s)" % e["obj"], d[0][1]),
                {"kind": "links_inconsistent", "part": d[0][0], "edit": sigedit or E.kind(spec, e)})
            break
        for n, o in objs.items():
            if n != "system" and len(o.systems) > 1:
                ctx.violation("object_in_two_systems", case_i, "%s is in %d systems" % (n, len(o.systems)),
                              {"kind": "object_in_two_systems", "edit": sigedit})
        if model["lookups"] != prev_model["lookups"] or model["systems"] != prev_model["systems"]:
            lookups_changed += 1
        prev_model = model
    ctx.case(case, mutators >= 1 and lookups_changed >= 1, labels,
             sample={"history": case["history"]})


def replay(case, ctx):
    check(case, ctx)


def minimise(violation, budget, ctx_factory):
    return M.minimise_history(violation, budget, ctx_factory, replay)


def run_shard(ctx):
    runner.run_given(ctx, cases(ctx.budget["max_steps"]), lambda c: check(c, ctx), ctx.budget["examples"])
