"""C19 — Results are independent of creation order, identifiers and hashing."""
import copy
import os
import pickle
import struct
import subprocess
import sys

from hypothesis import strategies as st

from pbt.common import env, runner, snap, fresh as F, spec as S, gen as G, edits as E, machine as M

env.import_efootprint()

ID = "C19"
TECHNIQUE = "property-based testing (Hypothesis), metamorphic: same model built under permuted creation order, other identifiers, permuted order-irrelevant lists and in worker processes with other PYTHONHASHSEED values"
LEVEL_TEXT = ("generated systems rebuilt (i) in a random creation order with other random ids, (ii) with permuted usage "
              "patterns / devices / same-step jobs, (iii) in two other processes per shard started with different hash "
              "seeds (32 hash seeds over 16 shards, one of them 'random'); all snapshots compared")
LEVEL_NOTE = "hash seeds are sampled (32 of 2^32), not exhausted"
RULE = ("Hypothesis draws a system spec, a permutation of the creation order, id seeds, and permutations of "
        "system.usage_patterns, of each devices list and of the jobs of each step. Variants are built in-process and in "
        "two persistent worker processes with other PYTHONHASHSEED values; every calculated attribute of every variant "
        "must equal the base build (rtol 1e-9: float re-association only). 0-2 input edits / whole-list assignments are "
        "then applied to the base model and to the variant built in another order with other ids, which must still "
        "agree after each. Non-trivial = >=2 usage patterns sharing a "
        "job, server or network (where set/dict iteration order can matter); distinct by spec hash.")
ASSUMPTIONS = ["same-step jobs, devices and usage patterns are order-irrelevant (steps of a journey are not)",
               "float re-association noise bounded by 1e-9 relative"]
BUDGET = {"quick": dict(examples=14, wall_guard_s=600), "thorough": dict(examples=250, wall_guard_s=3000)}

_workers = []


class Worker:
    def __init__(self, hashseed):
        envv = dict(os.environ, PYTHONHASHSEED=str(hashseed), PYTHONPATH=env.VERIF)
        self.hashseed = hashseed
        self.p = subprocess.Popen([sys.executable, "-m", "pbt.worker"], stdin=subprocess.PIPE, stdout=subprocess.PIPE,
                                  stderr=subprocess.DEVNULL, env=envv, cwd=env.VERIF)
        line = self.p.stdout.readline()
        assert line.strip() == b"READY", line

    def build(self, spec, id_seed):
        data = pickle.dumps({"spec": spec, "id_seed": id_seed})
        self.p.stdin.write(struct.pack(">I", len(data)))
        self.p.stdin.write(data)
        self.p.stdin.flush()
        (n,) = struct.unpack(">I", self.p.stdout.read(4))
        return pickle.loads(self.p.stdout.read(n))

    def close(self):
        try:
            self.p.stdin.close()
            self.p.wait(timeout=10)
        except Exception:
            self.p.kill()


def workers_for(shard):
    if not _workers:
        seeds = [1 + 2 * max(shard, 0), "random" if shard % 4 == 0 else 2 + 2 * max(shard, 0) + 1000 * (shard % 3)]
        for s in seeds:
            _workers.append(Worker(s))
    return _workers


@st.composite
def cases(draw):
    spec = draw(G.specs())
    names = [n for n in spec["objs"]]
    order = draw(st.permutations(names))
    perms = {}
    perms["system"] = draw(st.permutations(spec["system"]))
    for n, e in spec["objs"].items():
        if e["cls"] == "UsagePattern" and len(e["devices"]) > 1:
            perms[n] = draw(st.permutations(e["devices"]))
        if e["cls"] == "UsageJourneyStep" and len(e["jobs"]) > 1:
            perms[n] = draw(st.permutations(e["jobs"]))
    # ... and the numbers must stay independent of all that after edits (input-only edits and whole-list assignments:
    # they mean the same thing whatever the order of the lists)
    edits, cur = [], spec
    for _ in range(draw(st.integers(0, 2))):
        e = draw(G.simple_edit(cur))
        edits.append(e)
        cur = E.apply_spec(cur, e)
    return {"spec": spec, "id_seed": draw(st.integers(0, 2 ** 20)), "id_seed2": draw(st.integers(0, 2 ** 20)),
            "order": list(order), "perms": {k: list(v) for k, v in perms.items()}, "edits": edits}


def variant_specs(case):
    spec = case["spec"]
    v1 = copy.deepcopy(spec)
    v1["order"] = case["order"]
    v2 = copy.deepcopy(spec)
    for n, p in case["perms"].items():
        if n == "system":
            v2["system"] = list(p)
        elif v2["objs"][n]["cls"] == "UsagePattern":
            v2["objs"][n]["devices"] = list(p)
        else:
            v2["objs"][n]["jobs"] = list(p)
    v3 = copy.deepcopy(v2)
    v3["order"] = list(reversed(case["order"]))
    return {"creation_order+ids": (v1, case["id_seed2"]), "list_permutations": (v2, case["id_seed"]),
            "both": (v3, case["id_seed2"])}


def check(case, ctx):
    spec = case["spec"]
    labels = ["sharing=" + spec.get("sharing", "?")]
    base, exc = F.build_case(case)
    if base is None:
        ctx.case(case, False, labels + ["invalid_initial"])
        return
    sbase = snap.snapshot(S.reachable(base))
    problems = []
    again, _ = F.build_case(case)
    d = snap.compare(sbase, snap.snapshot(S.reachable(again)), rtol=0.0)
    if d:
        problems.append(("same_build_twice", "building the same model twice in one process differs: %s %s" % d[0]))
    variants = variant_specs(case)
    built = {}
    for name, (vs, ids) in variants.items():
        objs, ex = F.build_case({"spec": vs, "id_seed": ids})
        if objs is None:
            problems.append((name, "variant %s cannot be built: %s" % (name, ex)))
            continue
        built[name] = objs
        d = snap.compare(sbase, snap.snapshot(S.reachable(objs)))
        if d:
            problems.append((name, "variant %s: %d attribute(s) differ; first %s %s" % (name, len(d), d[0][0], d[0][1])))
    if not problems and case.get("edits") and "both" in built:
        # the same edits on the base model and on the variant built in another order with other ids
        cur_a, cur_b = spec, variants["both"][0]
        for i, e in enumerate(case["edits"]):
            ra = rb = None
            try:
                with M.watchdog():
                    E.apply_live(base, e, cur_a)
            except Exception as ex:
                ra = ex
            try:
                with M.watchdog():
                    E.apply_live(built["both"], e, cur_b)
            except Exception as ex:
                rb = ex
            if (ra is None) != (rb is None):
                problems.append(("after_edit", "edit %s %s on the base model and %s on the variant built in another "
                                 "order (%s)" % (E.describe(e), "raises" if ra else "works",
                                                 "raises" if rb else "works", ra or rb)))
                break
            if ra is not None:
                break
            cur_a, cur_b = E.apply_spec(cur_a, e), E.apply_spec(cur_b, e)
            d = snap.compare(snap.snapshot(S.reachable(base)), snap.snapshot(S.reachable(built["both"])))
            labels.append("compared_after_edit")
            if d:
                problems.append(("after_edit", "after edit %s the base model and the variant built in another order "
                                 "with other ids differ on %d attribute(s); first %s %s" % (
                                     E.describe(e), len(d), d[0][0], d[0][1])))
                break
    if os.environ.get("VERIF_C19_NO_WORKERS") != "1":
        ws = workers_for(ctx.shard)
        for w, (name, (vs, ids)) in zip(ws, [("base", (spec, case["id_seed"])), ("both", variants["both"])]):
            res = w.build(vs, ids)
            tag = "hashseed=%s/%s" % (w.hashseed, name)
            if "error" in res:
                problems.append((tag, "in a process with PYTHONHASHSEED=%s the model cannot be built: %s" % (
                    w.hashseed, res["error"])))
                continue
            d = snap.compare(sbase, res["snap"])
            if d:
                problems.append((tag, "process with PYTHONHASHSEED=%s (%s): %d attribute(s) differ; first %s %s" % (
                    w.hashseed, name, len(d), d[0][0], d[0][1])))
            labels.append("hashseed_checked")
    for name, why in problems[:1]:
        ctx.violation("order_dependent", case, why, {"kind": "order_dependent", "variant": name.split("=")[0]})
    sl = F.sharing_labels(spec)
    nontrivial = any(x in sl for x in ("shared_job", "shared_server", "shared_network"))
    ctx.case(case, nontrivial, labels + sl, sample={"order": case["order"][:12], "perms": case["perms"]})


def replay(case, ctx):
    try:
        check(case, ctx)
    finally:
        close_workers()


def close_workers():
    while _workers:
        _workers.pop().close()


def run_shard(ctx):
    try:
        runner.run_given(ctx, cases(), lambda c: check(c, ctx), ctx.budget["examples"])
    finally:
        close_workers()
