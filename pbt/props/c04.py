"""C04 — Infrastructure is always sized to cover the computed need."""
import copy
import math

from hypothesis import strategies as st

from pbt.common import env, runner, snap, fresh as F, spec as S, gen as G, machine as M
from pbt.props.c03 import hours_of, HOUR_NS

env.import_efootprint()

ID = "C04"
TECHNIQUE = "property-based testing (Hypothesis) with validity predicates per hour and an accept/raise oracle predicted by a reference model of the storage balance and server sizing"
LEVEL_TEXT = ("generated systems (3 server types, fixed counts below/at/above the need, base consumption below/above "
              "capacity, storage durations shorter and longer than the period, replication, writing and deleting jobs on "
              "different windows), freshly built and reached through edit histories; inequalities checked at every hour and rejection checked to happen iff the reference "
              "model predicts it")
LEVEL_NOTE = "trusts the job-level series (C03 checks them) and the harness' storage balance arithmetic"
RULE = ("Hypothesis draws a system spec and a tweak (none | base RAM/compute above capacity | fixed instance count of a "
        "server or storage set to need-1 / need / need+3 | a deleting job with no initial storage). A relaxed variant "
        "(no fixed counts, huge initial storage) is built first to read the loads; the reference model predicts whether "
        "the real model must raise ValueError. Oracle: build raises iff predicted (never another exception type); "
        "serverless nb == raw, autoscaling nb == ceil(raw), on-premise constant >= ceil(peak) and == fixed when given; "
        "storage cumulative need == base + running sum of replicated writes - expiries - deletions (by timestamp), "
        ">= 0, nb x capacity >= cumulative, 0 <= active <= nb. In a quarter of the cases the same oracle is run on a live "
        "model reached through a history of 1-4 edits (server type switched, durations changed, ...). Non-trivial = storage duration shorter than the period, "
        "or writing+deleting jobs, or a fixed count, or an expected rejection.")
ASSUMPTIONS = ["small systems; loads up to 1000 journey starts per hour",
               "a cumulative need within 1e-9 of the largest hourly delta of zero counts as zero (float cancellation)",
               "when raw need is within 1e-9 of an integer either rounding is accepted"]
BUDGET = {"quick": dict(examples=30, wall_guard_s=600), "thorough": dict(examples=500, wall_guard_s=3000)}
BIG_TB = 1e7
TWEAKS = ["none", "none", "base_ram_over", "base_compute_over", "fixed_server", "fixed_server", "fixed_storage",
          "fixed_storage", "delete_no_base", "short_storage", "delete_other_window", "delete_other_window"]


def two_window_spec(n, offset_h, dur_w, dur_d, dup):
    """One storage; a writing job used by pattern A and a deleting job used by pattern B, over windows of the same
    length n that are ``offset_h`` hours apart (equal, overlapping or disjoint)."""
    from datetime import datetime, timedelta
    t0 = datetime(2025, 3, 3, 5)
    t1 = t0 + timedelta(hours=offset_h)
    objs = {"st0": {"cls": "Storage", "base_storage_need": [900.0, "TB"], "storage_capacity": [1.0, "TB"]},
            "srv0": {"cls": "Server", "storage": "st0", "server_type": "autoscaling"},
            "jobw": {"cls": "Job", "server": "srv0", "data_stored": [2.0, "TB"], "request_duration": dur_w},
            "jobd": {"cls": "Job", "server": "srv0", "data_stored": [-3.0, "TB"], "request_duration": dur_d},
            "stepa": {"cls": "UsageJourneyStep", "jobs": ["jobw"] * dup}, "stepb": {"cls": "UsageJourneyStep", "jobs": ["jobd"]},
            "uja": {"cls": "UsageJourney", "uj_steps": ["stepa"]}, "ujb": {"cls": "UsageJourney", "uj_steps": ["stepb"]},
            "dev0": {"cls": "Device"}, "cty0": {"cls": "Country", "timezone": "UTC"}, "net0": {"cls": "Network"},
            "upa": {"cls": "UsagePattern", "usage_journey": "uja", "devices": ["dev0"], "network": "net0",
                    "country": "cty0", "start": [t0.year, t0.month, t0.day, t0.hour],
                    "starts": [float(1 + (i * 5) % 7) for i in range(n)]},
            "upb": {"cls": "UsagePattern", "usage_journey": "ujb", "devices": ["dev0"], "network": "net0",
                    "country": "cty0", "start": [t1.year, t1.month, t1.day, t1.hour],
                    "starts": [float(1 + (i * 3) % 5) for i in range(n)]}}
    return {"objs": objs, "system": ["upa", "upb"], "sharing": "infra_only"}


@st.composite
def cases(draw):
    if draw(st.floats(0, 1)) < 0.15:
        spec = two_window_spec(draw(st.integers(1, 30)), draw(st.sampled_from([0, 1, 3, 24, 48, 100])),
                               draw(st.sampled_from([[1.0, "s"], [1.0, "hour"], [90.0, "min"]])),
                               draw(st.sampled_from([[1.0, "s"], [1.0, "hour"], [90.0, "min"]])),
                               draw(st.integers(1, 2)))
        return {"spec": spec, "id_seed": draw(st.integers(0, 2 ** 20)), "tweak": "two_windows",
                "pick": draw(st.integers(0, 10 ** 6)), "delta": 0}
    spec = draw(G.specs(fixed=0.0))
    if draw(st.floats(0, 1)) < 0.25:
        # the sizing rules on a model reached through edits (server type switched, storage duration changed, ...)
        return {"spec": spec, "id_seed": draw(st.integers(0, 2 ** 20)), "tweak": "none",
                "pick": draw(st.integers(0, 10 ** 6)), "delta": 0,
                "history": draw(G.histories(spec, min_steps=1, max_steps=4))}
    return {"spec": spec, "id_seed": draw(st.integers(0, 2 ** 20)), "tweak": draw(st.sampled_from(TWEAKS)),
            "pick": draw(st.integers(0, 10 ** 6)), "delta": draw(st.sampled_from([-1, 0, 3]))}


def storage_reference(spec, objs, stn, base_tb=None):
    """Reference cumulative storage need (base units) of a storage from the job series of a built model."""
    srv = [n for n, e in spec["objs"].items() if e["cls"] in S.SERVER_CLS and e["storage"] == stn]
    needed, freed = {}, {}
    has_delete = False
    for sv in srv:
        for j in F.jobs_of_server(spec, sv):
            stored = snap.canon(objs[j].data_stored)
            m = 0.0 if stored is None else stored["m"]
            ser = F.series(snap.canon(objs[j].hourly_data_stored_across_usage_patterns))
            if m >= 0:
                F.add_into(needed, ser)
            else:
                has_delete = True
                F.add_into(freed, ser)
    r = F.attr_q(spec, stn, "data_replication_factor")
    needed = {k: v * r for k, v in needed.items()}
    freed = {k: v * r for k, v in freed.items()}
    dur = spec["objs"][stn].get("data_storage_duration") or S.default_quantity("Storage", "data_storage_duration")
    D = math.ceil(hours_of(dur))
    dumps = {}
    if needed:
        last = max(needed)
        for k, v in needed.items():
            if k + D * HOUR_NS <= last:
                dumps[k + D * HOUR_NS] = -v
    delta = {}
    for m in (needed, freed, dumps):
        F.add_into(delta, m)
    base = F.attr_q(spec, stn, "base_storage_need") if base_tb is None else base_tb
    cum = {}
    run = base
    for k in sorted(delta):
        run += delta[k]
        cum[k] = run
    scale = max([abs(v) for v in delta.values()] + [abs(base), 0.0])
    return {"needed": needed, "freed": freed, "dumps": dumps, "delta": delta, "cum": cum, "scale": scale,
            "has_delete": has_delete, "short": bool(dumps)}


def check(case, ctx):
    spec = copy.deepcopy(case["spec"])
    labels = ["tweak=" + case["tweak"]]
    live_objs = None
    if case.get("history"):
        quiet = type("Q", (), {"violation": lambda self, *a, **k: False})()
        summary = M.run_history(case, quiet, compare_fresh=False, check_totals=False, check_undo=False)
        if summary.get("live") is None or summary["status"] != "ok":
            ctx.case(case, False, labels + ["history_" + summary["status"]])
            return
        live_objs, spec = summary["live"], copy.deepcopy(summary["final_spec"])
        labels.append("after_history")
    comp = F.spec_components(spec)
    pick = case["pick"]
    # structural tweaks that do not need numbers
    plain = [s for s in comp["servers"] if spec["objs"][s]["cls"] == "Server"]
    if case["tweak"] in ("base_ram_over", "base_compute_over") and not plain:
        case = dict(case, tweak="none")
    if case["tweak"] == "delete_no_base":
        jobs = [j for j in comp["jobs"] if spec["objs"][j]["cls"] == "Job"]
        if jobs:
            j = jobs[pick % len(jobs)]
            e = spec["objs"][j]
            cur = e.get("data_stored") or S.default_quantity("Job", "data_stored")
            e["data_stored"] = [-abs(cur[0]) if cur[0] else -50.0, cur[1]]
            spec["objs"][spec["objs"][S.job_server(spec, j)]["storage"]]["base_storage_need"] = [0.0, "TB"]
    if case["tweak"] == "delete_other_window" and len(comp["ups"]) >= 2:
        # a usage pattern whose jobs delete data, over another window of exactly the same length as a writing pattern
        a, b = comp["ups"][0], comp["ups"][1 + pick % (len(comp["ups"]) - 1)]
        ea, eb = spec["objs"][a], spec["objs"][b]
        only_b = [j for j in set(S.journey_jobs(spec, eb["usage_journey"])) - set(S.journey_jobs(spec, ea["usage_journey"]))
                  if spec["objs"][j]["cls"] == "Job"]
        if only_b:
            from datetime import datetime, timedelta
            t = datetime(*ea["start"]) + timedelta(days=2, hours=pick % 5)
            eb["start"] = [t.year, t.month, t.day, t.hour]
            eb["starts"] = [float(1 + (i * 7 + pick) % 23) for i in range(len(ea["starts"]))]
            eb["country"] = ea["country"]
            for j in only_b:
                e = spec["objs"][j]
                cur = e.get("data_stored") or S.default_quantity("Job", "data_stored")
                e["data_stored"] = [-abs(cur[0]) if cur[0] else -50.0, cur[1]]
                spec["objs"][spec["objs"][S.job_server(spec, j)]["storage"]]["base_storage_need"] = [5000.0, "TB"]
    if case["tweak"] == "short_storage" and comp["storages"]:
        stn = comp["storages"][pick % len(comp["storages"])]
        spec["objs"][stn]["data_storage_duration"] = [[1.0, "hour"], [3.0, "hour"], [7.0, "hour"], [90.0, "min"], [2.5, "hour"],
                                                     [20.0, "min"], [4000.0, "s"]][pick % 7]
    # 1. relaxed variant: no fixed counts, huge initial storage
    relaxed = copy.deepcopy(spec)
    for n, e in relaxed["objs"].items():
        if e["cls"] == "Storage":
            e["base_storage_need"] = [BIG_TB, "TB"]
            e.pop("fixed_nb_of_instances", None)
        if e["cls"] in S.SERVER_CLS:
            e.pop("fixed_nb_of_instances", None)
    robjs, exc = F.build_case({"spec": relaxed, "id_seed": case["id_seed"]})
    if robjs is None:
        ctx.violation("rejected_valid_model", dict(case, spec=case["spec"]),
                      "a model valid by construction (no fixed counts, ample initial storage) was rejected: %s: %s" % (
                          type(exc).__name__, str(exc)[:300]),
                      {"kind": "rejected_valid_model", "exc": type(exc).__name__})
        ctx.case(case, False, labels + ["relaxed_build_failed"])
        return
    expect_raise = []
    # 2. numeric tweaks
    c = snap.canon
    if case["tweak"] in ("base_ram_over", "base_compute_over"):
        s = plain[pick % len(plain)]
        e = spec["objs"][s]
        util = (e.get("server_utilization_rate") or S.default_quantity("Server", "server_utilization_rate"))[0]
        if case["tweak"] == "base_ram_over":
            ram = e.get("ram") or S.default_quantity("Server", "ram")
            e["base_ram_consumption"] = [ram[0] * util * 1.5, ram[1]]
        else:
            cpu = e.get("compute") or S.default_quantity("Server", "compute")
            e["base_compute_consumption"] = [cpu[0] * util * 1.5, cpu[1]]
        expect_raise.append("base consumption of %s above capacity" % s)
    if case["tweak"] == "fixed_server" and comp["servers"]:
        onprem = [s for s in comp["servers"]]
        s = onprem[pick % len(onprem)]
        raw = F.series(c(robjs[s].raw_nb_of_instances))
        if raw:
            peak = max(raw.values())
            need = math.ceil(peak - 1e-9)
            fixed = max(need + case["delta"], 0)
            spec["objs"][s]["server_type"] = "on-premise"
            spec["objs"][s]["fixed_nb_of_instances"] = [float(fixed), "dimensionless"]
            if abs(peak - round(peak)) > 1e-6 and math.ceil(peak) > fixed:
                expect_raise.append("fixed count %d of %s below the need %d" % (fixed, s, math.ceil(peak)))
            elif abs(peak - round(peak)) <= 1e-6:
                labels.append("peak_on_integer_boundary")
                expect_raise = None if expect_raise == [] and fixed < need + 1 and case["delta"] < 0 else expect_raise
            labels.append("fixed_delta=%d" % case["delta"])
    refs = {}
    for stn in comp["storages"]:
        refs[stn] = storage_reference(spec, robjs, stn)
    if case["tweak"] == "fixed_storage" and comp["storages"]:
        stn = comp["storages"][pick % len(comp["storages"])]
        cap = F.attr_q(spec, stn, "storage_capacity")
        ref = refs[stn]
        if ref["cum"]:
            peak = max(ref["cum"].values()) / cap
            need = math.ceil(peak - 1e-9)
            fixed = max(need + case["delta"], 0)
            spec["objs"][stn]["fixed_nb_of_instances"] = [float(fixed), "dimensionless"]
            if expect_raise is not None:
                if abs(peak - round(peak)) > 1e-6 and math.ceil(peak) > fixed:
                    expect_raise.append("fixed count %d of %s below the need %d" % (fixed, stn, math.ceil(peak)))
                elif abs(peak - round(peak)) <= 1e-6 and case["delta"] < 0:
                    expect_raise = None
            labels.append("fixed_delta=%d" % case["delta"])
    for stn, ref in refs.items():
        if ref["cum"]:
            mn = min(ref["cum"].values())
            if mn < -1e-6 * max(ref["scale"], 1e-300):
                if expect_raise is not None:
                    expect_raise.append("cumulative storage need of %s goes negative (%g)" % (stn, mn))
            elif mn < 0 and abs(mn) > 1e-12 * ref["scale"] and ref["has_delete"]:
                expect_raise = None     # too close to zero to call
    # 3. the real model
    objs, exc = (live_objs, None) if live_objs is not None else \
        F.build_case({"spec": spec, "id_seed": case["id_seed"] + 1})
    final_case = dict(case, applied_spec=spec)
    nontrivial = bool(expect_raise) or any(r["short"] or (r["has_delete"] and r["needed"]) for r in refs.values()) \
        or case["tweak"].startswith("fixed")
    if objs is None:
        if not isinstance(exc, ValueError):
            ctx.violation("wrong_exception", final_case, "build raised %s: %s (expected %s)" % (
                type(exc).__name__, str(exc)[:300], expect_raise or "success"),
                {"kind": "wrong_exception", "exc": type(exc).__name__})
        elif expect_raise == []:
            ctx.violation("rejected_valid_model", final_case,
                          "the reference model finds this model valid but it was rejected: %s" % str(exc)[:300],
                          {"kind": "rejected_valid_model", "tweak": case["tweak"]})
        ctx.case(case, nontrivial, labels + ["raised"])
        return
    if expect_raise:
        ctx.violation("under_provisioned_silently", final_case,
                      "the model was accepted although %s" % "; ".join(expect_raise),
                      {"kind": "accepted_invalid_model", "tweak": case["tweak"]})
        ctx.case(case, nontrivial, labels + ["accepted"])
        return
    problems = []
    # 4. servers
    for s in comp["servers"]:
        e = spec["objs"][s]
        raw = F.series(c(objs[s].raw_nb_of_instances))
        nb = F.series(c(objs[s].nb_of_instances))
        # independent raw need
        ram_need = F.series(c(objs[s].hour_by_hour_ram_need))
        cpu_need = F.series(c(objs[s].hour_by_hour_compute_need))
        av_ram = c(objs[s].available_ram_per_instance)
        av_cpu = c(objs[s].available_compute_per_instance)
        if av_ram and av_cpu and av_ram["m"] > 0 and av_cpu["m"] > 0:
            exp_raw = {k: max(ram_need.get(k, 0.0) / av_ram["m"], cpu_need.get(k, 0.0) / av_cpu["m"])
                       for k in set(ram_need) | set(cpu_need)}
            why = F.maps_close(raw, exp_raw)
            if why:
                problems.append("%s.raw_nb_of_instances != max(ram need/available, cpu need/available): %s" % (s, why))
        # available resources
        util = F.attr_q(spec, s, "server_utilization_rate")
        occ_ram = c(objs[s].occupied_ram_per_instance)
        ram_c = c(objs[s].ram)
        if av_ram and ram_c and occ_ram is not None:
            exp = ram_c["m"] * util - occ_ram["m"]
            if abs(exp - av_ram["m"]) > 1e-9 * max(abs(exp), ram_c["m"]):
                problems.append("%s.available_ram_per_instance %r != ram x utilisation - occupied %r" % (
                    s, av_ram["m"], exp))
        st_type = e.get("server_type") or "autoscaling"
        if e["cls"] == "GPUServer" and "server_type" not in e:
            st_type = "serverless"
        labels.append("server_type=" + st_type)
        for k, r in raw.items():
            n = nb.get(k, 0.0)
            if n < r - 1e-9 * max(1.0, abs(r)):
                problems.append("%s has %r instances for a raw need of %r at %s" % (s, n, r, k))
                break
            near_int = abs(r - round(r)) <= 1e-9 * max(1.0, abs(r))
            if st_type == "serverless" and abs(n - r) > 1e-9 * max(1.0, abs(r)):
                problems.append("serverless %s: %r instances != raw need %r" % (s, n, r))
                break
            if st_type == "autoscaling" and n != math.ceil(r) and not (near_int and abs(n - round(r)) <= 1):
                problems.append("autoscaling %s: %r instances != ceil(%r)" % (s, n, r))
                break
        if st_type == "on-premise" and raw:
            vals = set(nb.values())
            peak = max(raw.values())
            if len(vals) != 1:
                problems.append("on-premise %s: instance count is not constant (%s...)" % (s, sorted(vals)[:3]))
            else:
                n = vals.pop()
                fx = e.get("fixed_nb_of_instances")
                near_int = abs(peak - round(peak)) <= 1e-9 * max(1.0, peak)
                if fx is not None:
                    if n != fx[0]:
                        problems.append("on-premise %s: %r instances although the user fixed %r" % (s, n, fx[0]))
                elif n != math.ceil(peak) and not (near_int and abs(n - round(peak)) <= 1):
                    problems.append("on-premise %s: %r instances != ceil(peak %r)" % (s, n, peak))
                if set(nb) != set(raw):
                    problems.append("on-premise %s: instance series covers other hours than the need" % s)
    # 5. storages
    for stn in comp["storages"]:
        ref = storage_reference(spec, objs, stn)
        cap = F.attr_q(spec, stn, "storage_capacity")
        cum = F.series(c(objs[stn].full_cumulative_storage_need))
        exp = {k: (0.0 if abs(v) <= 1e-9 * ref["scale"] else v) for k, v in ref["cum"].items()}
        # the library may list additional hours with a zero delta (zero-filled expiry series between two windows):
        # there the cumulative need is the running sum reached so far
        if set(cum) - set(exp):
            import bisect
            keys = sorted(exp)
            base_v = F.attr_q(spec, stn, "base_storage_need")
            for k in sorted(set(cum) - set(exp)):
                i = bisect.bisect_right(keys, k)
                exp[k] = exp[keys[i - 1]] if i else base_v
            if set(exp) - set(cum):
                problems.append("%s.full_cumulative_storage_need lacks hours with a non-zero balance" % stn)
        why = F.maps_close(cum, exp, rtol=1e-9, atol=2e-9 * ref["scale"])
        if why:
            problems.append("%s.full_cumulative_storage_need != base + running sum of writes - expiries - deletions: "
                            "%s" % (stn, why))
        why = F.maps_close(F.series(c(objs[stn].storage_delta)), ref["delta"], atol=1e-12 * ref["scale"])  # missing = 0
        if why:
            problems.append("%s.storage_delta differs from the reference balance: %s" % (stn, why))
        nb = F.series(c(objs[stn].nb_of_instances))
        act = F.series(c(objs[stn].nb_of_active_instances))
        fx = spec["objs"][stn].get("fixed_nb_of_instances")
        for k, v in cum.items():
            if v < -1e-9 * ref["scale"]:
                problems.append("%s: negative cumulative storage need %r" % (stn, v))
                break
            n = nb.get(k, 0.0)
            if n * cap < v - 1e-9 * max(ref["scale"], v):
                problems.append("%s: %r instances x capacity < cumulative need %r" % (stn, n, v))
                break
            if fx is not None and n != fx[0]:
                problems.append("%s: %r instances although the user fixed %r" % (stn, n, fx[0]))
                break
            r = v / cap
            if fx is None and n != math.ceil(r) and not (abs(r - round(r)) <= 1e-9 * max(1.0, r) and
                                                          abs(n - round(r)) <= 1):
                problems.append("%s: %r instances != ceil(%r)" % (stn, n, r))
                break
        # active instances: what is written, deleted or expires at that hour over the capacity, capped by what is
        # provisioned -- each term taken at the SAME timestamp (writing and deleting jobs may cover different windows)
        exp_act = {}
        for k in set(ref["needed"]) | set(ref["freed"]) | set(ref["dumps"]):
            moved = max(abs(ref["needed"].get(k, 0.0)), abs(ref["freed"].get(k, 0.0))) + abs(ref["dumps"].get(k, 0.0))
            exp_act[k] = min(moved / cap, nb.get(k, 0.0))
        why = F.maps_close(act, exp_act, rtol=1e-9, atol=1e-12)
        if why and not isinstance(objs[stn].nb_of_active_instances, type(None)):
            problems.append("%s.nb_of_active_instances is not (max(|written|, |deleted|) + |expired|) / capacity taken "
                            "hour by hour: %s" % (stn, why))
        for k, a in act.items():
            if a < -1e-12 or a > nb.get(k, 0.0) + 1e-9 * max(1.0, a):
                problems.append("%s: %r active instances with %r provisioned" % (stn, a, nb.get(k, 0.0)))
                break
    if problems:
        ctx.violation("sizing", final_case, "; ".join(problems[:4]),
                      {"kind": "sizing", "what": " ".join(problems[0].split(" ")[1:4]) if ":" in problems[0][:30]
                       else problems[0].split(" ")[0].split(".")[-1]})
    ctx.case(case, nontrivial, labels,
             sample={"tweak": case["tweak"], "delta": case["delta"],
                     "objects": {n: e["cls"] for n, e in spec["objs"].items()}, "system": spec["system"]})


def replay(case, ctx):
    check({k: v for k, v in case.items() if k != "applied_spec"}, ctx)


def run_shard(ctx):
    runner.run_given(ctx, cases(), lambda c: check(c, ctx), ctx.budget["examples"])
