"""C18 — A computed model is a fixed point and computing never alters inputs."""
import contextlib
import io
import os
import shutil
import tempfile

from hypothesis import strategies as st

from pbt.common import env, runner, snap, fresh as F, spec as S, gen as G, machine as M

env.import_efootprint()

ID = "C18"
TECHNIQUE = "property-based testing (Hypothesis): drawn sequences of explicit recomputation requests and read-only operations on generated (optionally edited) systems; invariant = snapshots of inputs and calculated values unchanged"
LEVEL_TEXT = ("generated systems, optionally after an edit history; any subset/order/repetition of per-object "
              "recomputation requests and whole-system passes; str/repr/explain/JSON export/plots/graph exports; "
              "calculated values and the physical value of every input must be unchanged after each operation")
LEVEL_NOTE = "plots and graph exports are run offline in a scratch directory; in-place unit conversion of an input is allowed, a change of its physical value is not"
RULE = ("Hypothesis draws a system spec, optionally a history of 1-4 edits, then a list of operations: recompute(object) "
        "for drawn objects in drawn order with repetition, whole-system recomputation, str/repr of objects, explain of "
        "every calculated attribute, to_json / system_to_json with and without calculated attributes, "
        "plot_footprints_by_category_and_object, plot_emission_diffs, object relationship and calculus graphs. After "
        "every operation snapshot(calculated) and snapshot(inputs) must equal those before (rtol 1e-9 / exact physical "
        "value for inputs). The inputs of the computed model are also compared with those of the same objects "
        "built without a System (nothing computed yet). Non-trivial = >=2 recomputation requests out of canonical order, or a plot/export call.")
ASSUMPTIONS = ["recomputing an object whose inputs did not change may replace value objects; only values are compared"]
BUDGET = {"quick": dict(examples=20, wall_guard_s=600), "thorough": dict(examples=200, wall_guard_s=3000)}
OPS = ["recompute", "recompute", "recompute", "recompute_system", "str", "explain", "to_json", "system_to_json",
       "system_to_json_calc", "plot_category", "plot_diffs", "object_graph", "calculus_graph"]


@st.composite
def cases(draw):
    spec = draw(G.specs())
    hist = draw(G.histories(spec, min_steps=1, max_steps=4)) if draw(st.booleans()) else []
    n = draw(st.integers(2, 8))
    ops = [[draw(st.sampled_from(OPS)), draw(st.integers(0, 10 ** 6))] for _ in range(n)]
    return {"spec": spec, "id_seed": draw(st.integers(0, 2 ** 20)), "history": hist, "ops": ops}


def run_op(objs, reach, op, pick, workdir):
    names = sorted(n for n in reach if n != "system")
    system = objs["system"]
    if op == "recompute":
        n = names[pick % len(names)]
        reach[n].compute_calculated_attributes()
        return "recompute(%s:%s)" % (n, type(reach[n]).__name__)
    if op == "recompute_system":
        system.launch_mod_objs_computation_chain(system.mod_objs_computation_chain[1:])
        system.compute_calculated_attributes()
        return "recompute(whole system)"
    if op == "str":
        for o in reach.values():
            str(o)
            repr(o)
        return "str/repr of all objects"
    if op == "explain":
        for o in reach.values():
            for a in o.calculated_attributes:
                v = getattr(o, a)
                for x in (v.values() if isinstance(v, dict) else [v]):
                    x.explain()
        return "explain of all calculated attributes"
    if op == "to_json":
        for o in reach.values():
            o.to_json(save_calculated_attributes=bool(pick % 2))
        return "to_json of all objects"
    from efootprint.api_utils.system_to_json import system_to_json
    if op == "system_to_json":
        system_to_json(system, save_calculated_attributes=False, output_filepath=os.path.join(workdir, "s.json"))
        return "system_to_json(False)"
    if op == "system_to_json_calc":
        system_to_json(system, save_calculated_attributes=True)
        return "system_to_json(True)"
    cwd = os.getcwd()
    os.chdir(workdir)
    try:
        with contextlib.redirect_stdout(io.StringIO()):
            if op == "plot_category":
                system.plot_footprints_by_category_and_object(filename=os.path.join(workdir, "p.html"))
                return "plot_footprints_by_category_and_object"
            if op == "plot_diffs":
                import matplotlib
                matplotlib.use("Agg")
                import matplotlib.pyplot as plt
                system.plot_emission_diffs(filepath=os.path.join(workdir, "d.png"))
                plt.close("all")
                return "plot_emission_diffs"
            if op == "object_graph":
                system.object_relationship_graph_to_file(filename=os.path.join(workdir, "o.html"))
                return "object_relationship_graph_to_file"
            if op == "calculus_graph":
                system.total_footprint.calculus_graph_to_file(filename=os.path.join(workdir, "c.html"))
                return "calculus_graph_to_file"
    finally:
        os.chdir(cwd)
    raise ValueError(op)


def check(case, ctx):
    labels = []
    if case["history"]:
        summary = M.run_history(case, _Quiet(ctx), compare_fresh=False, check_totals=False, check_undo=False)
        if summary["status"] not in ("ok",) or "live" not in summary:
            ctx.case(case, False, ["history_" + summary["status"]])
            return
        objs = summary["live"]
        labels.append("after_history")
    else:
        objs, exc = F.build_case(case)
        if objs is None:
            ctx.case(case, False, ["invalid_initial"])
            return
    reach = S.reachable(objs)
    workdir = tempfile.mkdtemp(prefix="verif-c18-")
    nontrivial = False
    try:
        before_c = snap.snapshot(reach, calc=True)
        before_i = snap.snapshot(reach, calc=False, inputs=True)
        # the inputs of the computed model against the same inputs as declared, before anything was computed:
        # the same objects built without a System (nothing is calculated until a System exists)
        spec_now = summary["final_spec"] if case["history"] else case["spec"]
        try:
            declared_objs = S.build(spec_now, id_seed=case.get("id_seed", 0) + 1, with_system=False)
        except Exception:
            declared_objs = None
            labels.append("declared_build_failed")
        if declared_objs is not None:
            declared = snap.snapshot({n: declared_objs[n] for n in reach if n in declared_objs}, calc=False,
                                     inputs=True)
            d = snap.compare(declared, before_i, rtol=1e-12, keys=sorted(set(declared) & set(before_i)))
            labels.append("declared_inputs_compared")
            if d:
                ctx.violation("input_altered", case, "computing the system altered input(s): %s %s" % (
                    d[0][0], d[0][1]), {"kind": "input_altered", "op": "compute", "attr": d[0][0][1]})
        last_rank = -1
        recomputes = 0
        for op, pick in case["ops"]:
            labels.append("op=" + op)
            try:
                with M.watchdog():
                    what = run_op(objs, reach, op, pick, workdir)
            except M.Hang as ex:
                ctx.violation("operation_hangs", case, "%s did not return: %s" % (op, ex),
                              {"kind": "operation_hangs", "op": op})
                break
            except Exception as ex:
                # the property does not promise that every plot works on every system (e.g. nothing to diff yet):
                # only that whatever happens, inputs and values are untouched -- checked below
                labels.append("op_raised=" + op)
                what = "%s (raised %s)" % (op, type(ex).__name__)
                if op.startswith("recompute"):
                    ctx.violation("recompute_raises", case, "%s raised %s: %s" % (op, type(ex).__name__,
                                                                                 str(ex)[:300]),
                                  {"kind": "recompute_raises", "exc": type(ex).__name__})
                    break
            if op.startswith("recompute"):
                recomputes += 1
            if op not in ("recompute", "recompute_system", "str"):
                nontrivial = True
            if recomputes >= 2:
                nontrivial = True
            after_c = snap.snapshot(reach, calc=True)
            d = snap.compare(before_c, after_c)
            if d:
                ctx.violation("not_a_fixed_point", case, "%s changed %d calculated value(s) although no input changed; "
                              "first: %s %s" % (what, len(d), d[0][0], d[0][1]),
                              {"kind": "not_a_fixed_point", "op": op, "attr": d[0][0][1]})
                break
            after_i = snap.snapshot(reach, calc=False, inputs=True)
            d = snap.compare(before_i, after_i, rtol=1e-12)
            if d:
                ctx.violation("input_altered", case, "%s altered input(s): %s %s" % (what, d[0][0], d[0][1]),
                              {"kind": "input_altered", "op": op, "attr": d[0][0][1]})
                break
    finally:
        shutil.rmtree(workdir, ignore_errors=True)
    ctx.case(case, nontrivial, labels, sample={"ops": case["ops"], "history_len": len(case["history"])})


class _Quiet:
    """Swallows violations of the history phase (those belong to C01)."""

    def __init__(self, ctx):
        self.ctx = ctx

    def violation(self, *a, **k):
        return False


def replay(case, ctx):
    check(case, ctx)


def run_shard(ctx):
    runner.run_given(ctx, cases(), lambda c: check(c, ctx), ctx.budget["examples"])
