"""C08 — The calculation graph is consistent and complete."""
import copy

from hypothesis import strategies as st

from pbt.common import env, runner, snap, fresh as F, spec as S, gen as G, edits as E, machine as M, ident as I
from pbt.props import c05

env.import_efootprint()

from efootprint.abstract_modeling_classes.explainable_object_base_class import ExplainableObject  # noqa: E402
from efootprint.abstract_modeling_classes.explainable_object_dict import ExplainableObjectDict  # noqa: E402
from efootprint.abstract_modeling_classes.modeling_update import ModelingUpdate  # noqa: E402

ID = "C08"
TECHNIQUE = "property-based testing (Hypothesis): structural graph invariants after generated histories of edits, simulations and toggles; metamorphic completeness (perturb every input of a generated system, changed attributes must descend from it and be ordered correctly in its update chain)"
LEVEL_TEXT = ("structural invariants (both ends listed, at the id level users inspect; every listed value is the object "
              "currently held; no cycle; JSON export lists the same ids) after every step of generated histories; "
              "completeness for every (input, calculated attribute) pair of generated systems via one perturbed fresh "
              "build per input; update chain lists each dependent once and after its ancestors")
LEVEL_NOTE = "completeness uses numeric difference between two fresh builds as ground truth for 'depends on' (a dependency that never changes the value for the perturbations tried is not seen)"
RULE = ("Modes drawn by Hypothesis: structural = system spec + history of 1-6 edits (C01 algebra) or 1-2 simulations with "
        "toggles; after the build and after every step: for every value held by a reachable object, each listed "
        "ancestor/child lists it back (by id, dict entries merged), is the very object stored under its container's "
        "attribute / dict key, the graph has no cycle, and to_json(calculated data) lists exactly the in-memory ids. "
        "completeness = system spec; every quantity / hourly / time-zone input I reachable from the system is perturbed "
        "in a fresh build; each calculated attribute that changes must have I among all_ancestors_with_id (by id) and "
        "appear exactly once in I.attr_updates_chain after all its own recorded ancestors that are in the chain. "
        "Non-trivial: completeness pair at graph distance >= 2; structural state after >= 1 link or list edit.")
ASSUMPTIONS = ["bookkeeping dictionaries (previous_*/initial_* totals) are not part of the graph",
               "explicit out-of-order compute_calculated_attributes() calls are not part of the histories (C18)"]
BUDGET = {"quick": dict(examples=10, max_inputs=14, wall_guard_s=700),
          "thorough": dict(examples=120, max_inputs=80, wall_guard_s=4000)}


# ------------------------------------------------------------------------------------------------ structural

def held_values(reach):
    """[(where, value)] for every explainable value held by reachable objects (dict entries individually)."""
    out = []
    for name, obj in reach.items():
        for a, k, x in I.values_of(obj):
            out.append(("%s.%s%s" % (name, a, "[%s]" % k if k is not None else ""), x))
    return out


def is_held(x):
    """Is x the very object stored under its container's attribute (or dict key)?"""
    cont, attr = x.modeling_obj_container, x.attr_name_in_mod_obj_container
    if cont is None or attr is None:
        return False
    cur = cont.__dict__.get(attr)
    if cur is x:
        return True
    if isinstance(cur, dict):
        return any(v is x for v in cur.values())
    return False


def node_list(x, which):
    """Ancestors/children of the graph node of x (all entries of a dict attribute are one node)."""
    cont, attr = x.modeling_obj_container, x.attr_name_in_mod_obj_container
    sibs = [x]
    if cont is not None and attr is not None:
        cur = cont.__dict__.get(attr)
        if isinstance(cur, dict) and any(v is x for v in cur.values()):
            sibs = list(cur.values())
    out = []
    for s in sibs:
        out.extend(getattr(s, which))
    return out


def vid(x):
    try:
        return x.id
    except Exception:
        return None


def structural_problems(objs, check_json=True):
    reach = S.reachable(objs)
    probs = []
    held = held_values(reach)
    ids_held = {id(x) for _, x in held}
    graph = {}
    for where, x in held:
        xid = vid(x)
        for kind, lst in (("ancestor", x.direct_ancestors_with_id), ("child", x.direct_children_with_id)):
            for y in lst:
                yid = vid(y)
                if yid is None or not is_held(y):
                    probs.append(("not_held", "%s lists as %s a value that the model no longer holds (%s)" % (
                        where, kind, yid or getattr(y, "label", "?"))))
                    continue
                back = node_list(y, "direct_children_with_id" if kind == "ancestor" else "direct_ancestors_with_id")
                if xid not in [vid(z) for z in back]:
                    probs.append(("one_ended", "%s lists %s as %s but is not listed back" % (where, yid, kind)))
                if kind == "child":
                    graph.setdefault(xid, set()).add(yid)
    # acyclicity (ids)
    color = {}

    def dfs(n):
        stack = [(n, iter(graph.get(n, ())))]
        color[n] = 1
        while stack:
            node, it = stack[-1]
            nxt = next(it, None)
            if nxt is None:
                color[node] = 2
                stack.pop()
                continue
            if nxt == node:
                continue      # entries of one dict (same id) may feed each other's node: not a cycle between nodes
            if color.get(nxt) == 1:
                return "%s -> ... -> %s" % (nxt, node)
            if color.get(nxt) is None:
                color[nxt] = 1
                stack.append((nxt, iter(graph.get(nxt, ()))))
        return None

    for n in list(graph):
        if color.get(n) is None:
            cyc = dfs(n)
            if cyc:
                probs.append(("cycle", "the calculation graph has a cycle: %s" % cyc))
                break
    if check_json:
        for name, obj in reach.items():
            try:
                js = obj.to_json(save_calculated_attributes=True)
            except Exception as ex:
                probs.append(("export_error", "%s.to_json(save_calculated_attributes=True) raised %s: %s" % (
                    name, type(ex).__name__, str(ex)[:200])))
                continue
            for a, k, x in I.values_of(obj):
                if a not in js:
                    continue
                entry = js[a]
                if k is not None:
                    kid = next((kk.id for kk in obj.__dict__[a] if hasattr(kk, "id") and S.key_of(kk) == k), k)
                    entry = entry.get(kid) if isinstance(entry, dict) else None
                if not isinstance(entry, dict) or "direct_ancestors_with_id" not in entry:
                    continue
                if entry["direct_ancestors_with_id"] != [vid(z) for z in x.direct_ancestors_with_id] or \
                        entry["direct_children_with_id"] != [vid(z) for z in x.direct_children_with_id]:
                    probs.append(("export_mismatch", "%s.%s: exported dependency ids differ from memory" % (name, a)))
    return probs


def report(ctx, case, probs, when):
    if not probs:
        return True
    kind, detail = probs[0]
    sig = {"kind": "graph_" + kind, "when": when.split(" ")[0]}
    if sig["when"] == "while_simulation_on" and kind in ("not_held", "one_ended"):
        sig = {"kind": "graph_stale_edges", "when": "while_simulation_on"}
    ctx.violation(sig["kind"], case, "%s: %s (%d problem(s) in total)" % (when, detail, len(probs)), sig)
    return False


# ------------------------------------------------------------------------------------------------ cases

@st.composite
def cases(draw):
    mode = draw(st.sampled_from(["history", "history", "simulation", "completeness"]))
    spec = draw(G.specs(max_len=30, long_prob=0.0))
    c = {"mode": mode, "spec": spec, "id_seed": draw(st.integers(0, 2 ** 20))}
    if mode == "history":
        c["history"] = draw(G.histories(spec, min_steps=1, max_steps=6))
    elif mode == "simulation":
        sims = []
        for _ in range(draw(st.integers(1, 2))):
            ch, bad = draw(c05.sim_changes(spec, allow_bad=True))
            sims.append({"changes": ch, "bad": bad, "date_kind": draw(st.sampled_from(["first", "interior", "last"])),
                         "k": draw(st.integers(1, 30)),
                         "toggles": [list(t) for t in draw(st.lists(st.tuples(st.sampled_from(["set", "reset"]),
                                                                              st.integers(0, 1)), max_size=4))]})
        c["sims"] = sims
        c["history"] = draw(G.histories(spec, min_steps=0, max_steps=2))
    else:
        c["pick"] = draw(st.integers(0, 10 ** 6))
    return c


def perturb(spec, inp):
    sp = copy.deepcopy(spec)
    kind, n, a = inp
    e = sp["objs"][n]
    if kind == "q":
        val = e.get(a) or S.default_quantity(e["cls"], a)
        m = val[0] * 1.37 + (1.0 if val[0] == 0 else 0.0)
        if a == "server_utilization_rate":
            m = val[0] * 0.83
        if a == "data_replication_factor":
            m = val[0] + 1
        e[a] = [m, val[1]]
    elif kind == "hourly":
        e["starts"] = [v * 1.5 + 1.0 for v in e["starts"]]
    else:
        e["timezone"] = "Asia/Kolkata" if e["timezone"] != "Asia/Kolkata" else "America/St_Johns"
    return sp


def inputs_of(spec):
    out = []
    for n in sorted(S.spec_reachable(spec)):
        e = spec["objs"][n]
        for a in S.quantity_inputs(e["cls"]):
            out.append(("q", n, a))
        if e["cls"] == "UsagePattern":
            out.append(("hourly", n, "hourly_usage_journey_starts"))
        if e["cls"] == "Country":
            out.append(("tz", n, "timezone"))
    return out


def check_completeness(case, ctx):
    spec = case["spec"]
    objs, exc = F.build_case(case)
    if objs is None:
        ctx.case(case, False, ["mode=completeness", "invalid_initial"])
        return
    reach = S.reachable(objs)
    base = snap.snapshot(reach)
    ins = inputs_of(spec)
    maxn = ctx.budget.get("max_inputs", 14)
    if len(ins) > maxn:
        # inputs whose current value is 0 first (they switch a dependent between 'no value' and a value, where
        # dependencies recorded through empty operands matter), then a drawn window of the others
        def is_zero(i):
            e = spec["objs"][i[1]]
            return i[0] == "q" and (e.get(i[2]) or S.default_quantity(e["cls"], i[2]))[0] == 0
        zeros = [i for i in ins if is_zero(i)]
        rest = [i for i in ins if not is_zero(i)]
        start = case["pick"] % max(len(rest), 1)
        ins = (zeros + (rest + rest)[start:start + maxn])[:maxn]
    pairs = far = 0
    labels = ["mode=completeness"]
    for inp in ins:
        kind, n, a = inp
        other, exc = F.build_case({"spec": perturb(spec, inp), "id_seed": case["id_seed"]})
        if other is None:
            labels.append("perturbed_invalid")
            continue
        osnap = snap.snapshot(S.reachable(other))
        changed = [k for k, _ in snap.compare(base, osnap) if k in base and k in osnap]
        ival = getattr(reach[n], a)
        iid = vid(ival)
        chain = ival.attr_updates_chain
        chain_keys = [(S.key_of(x.modeling_obj_container), x.attr_name_in_mod_obj_container) for x in chain]
        if len(set(chain_keys)) != len(chain_keys):
            ctx.violation("chain_duplicates", dict(case, input=list(inp)),
                          "update chain of %s.%s lists an attribute twice" % (n, a),
                          {"kind": "chain_duplicates", "input": "%s.%s" % (spec["objs"][n]["cls"], a)})
        pos = {k: i for i, k in enumerate(chain_keys)}
        for key in changed:
            if key == ("system", "total_footprint") and False:
                continue
            pairs += 1
            x = getattr(reach[key[0]], key[1])
            anc = x.all_ancestors_with_id
            anc_ids = [vid(z) for z in anc]
            sig = {"input": "%s.%s" % (spec["objs"][n]["cls"], a),
                   "attr": "%s.%s" % (type(reach[key[0]]).__name__, key[1])}
            if iid not in anc_ids:
                ctx.violation("incomplete_ancestors", dict(case, input=list(inp)),
                              "changing %s.%s changes %s.%s but the input is not among its transitive ancestors" % (
                                  n, a, key[0], key[1]), dict(sig, kind="incomplete_ancestors"))
                continue
            if key not in pos:
                ctx.violation("missing_from_update_chain", dict(case, input=list(inp)),
                              "changing %s.%s changes %s.%s but it is absent from the input's update chain" % (
                                  n, a, key[0], key[1]), dict(sig, kind="missing_from_update_chain"))
                continue
            direct = {vid(z) for z in (sum([list(v.direct_ancestors_with_id) for v in x.values()], [])
                                       if isinstance(x, dict) else x.direct_ancestors_with_id)}
            if iid not in direct:
                far += 1
            # ordered after its own ancestors that are in the chain
            xs = list(x.values()) if isinstance(x, dict) else [x]
            for v in xs:
                for z in v.direct_ancestors_with_id:
                    zk = (S.key_of(z.modeling_obj_container), z.attr_name_in_mod_obj_container) \
                        if z.modeling_obj_container is not None else None
                    if zk in pos and zk != key and pos[zk] > pos[key]:
                        ctx.violation("update_chain_order", dict(case, input=list(inp)),
                                      "in the update chain of %s.%s, %s.%s comes before its ancestor %s.%s" % (
                                          n, a, key[0], key[1], zk[0], zk[1]), dict(sig, kind="update_chain_order"))
        labels.append("input=" + kind)
    ctx.extra["completeness_pairs"] = ctx.extra.get("completeness_pairs", 0) + pairs
    ctx.case(case, far > 0, labels, sample={"mode": "completeness", "inputs": [list(i) for i in ins][:8],
                                            "pairs": pairs, "pairs_at_distance_ge_2": far})


def check_history(case, ctx):
    labels = ["mode=" + case["mode"]]
    nontrivial = [False]

    def on_step(st_):
        if st_.edit["op"] in ("link", "list", "listop", "add_up", "remove_up", "group"):
            nontrivial[0] = True
        return report(ctx, dict(case, history=case["history"][:st_.index + 1]),
                      structural_problems(st_.live, check_json=(st_.index % 2 == 0)),
                      "after_edit %s (step %d)" % (E.describe(st_.edit), st_.index))

    objs0, exc = F.build_case(case)
    if objs0 is None:
        ctx.case(case, False, labels + ["invalid_initial"])
        return
    if not report(ctx, dict(case, history=[]), structural_problems(objs0), "fresh build"):
        ctx.case(case, False, labels)
        return
    quiet = type("Q", (), {"violation": lambda self, *a, **k: False})()
    summary = M.run_history(case, quiet, on_step=on_step, compare_fresh=False, check_totals=False, check_undo=False)
    labels.append("history_" + summary["status"])
    if case["mode"] == "simulation" and summary.get("live") is not None:
        objs = summary["live"]
        spec = summary["final_spec"]
        lo, hi = c05.period(objs, spec)
        created, on = [], None
        for si, sim in enumerate(case.get("sims", [])):
            if lo is None:
                break
            try:
                changes = c05.build_changes(objs, spec, sim)
            except Exception:
                break
            try:
                with M.watchdog():
                    mu = ModelingUpdate(changes, c05.sim_date(sim["date_kind"], sim["k"], lo, hi))
                created.append(mu)
                labels.append("sim_created")
                nontrivial[0] = True
            except Exception as ex:
                labels.append("sim_raised")
            if not report(ctx, dict(case, sims=case["sims"][:si + 1]), structural_problems(objs, False),
                          "after_simulation %d" % si):
                break
            ok = True
            for action, which in sim["toggles"]:
                if not created:
                    break
                t = created[which % len(created)]
                if action == "set":
                    if on is not None and on is not t:
                        on.reset_values()
                    t.set_updated_values()
                    on = t
                else:
                    t.reset_values()
                    on = None if on is t else on
                if not report(ctx, dict(case, sims=case["sims"][:si + 1]), structural_problems(objs, False),
                              "%s (toggle %s of simulation %d)" % ("while_simulation_on" if on is not None
                                                                   else "after_reset", action, si)):
                    ok = False
                    break
            if on is not None:
                on.reset_values()
                on = None
            if not ok:
                break
    ctx.case(case, nontrivial[0], labels,
             sample={"mode": case["mode"], "history": [E.describe(e) for e in case.get("history", [])],
                     "sims": [[E.describe(e) for e in s["changes"]] for s in case.get("sims", [])]})


def check(case, ctx):
    if case["mode"] == "completeness":
        check_completeness(case, ctx)
    else:
        check_history(case, ctx)


def replay(case, ctx):
    check({k: v for k, v in case.items() if k != "input"}, ctx)


def run_shard(ctx):
    runner.run_given(ctx, cases(), lambda c: check(c, ctx), ctx.budget["examples"])
