"""C11 — Local-time usage is converted to UTC without losing or inventing traffic."""
from datetime import datetime, timedelta

import numpy as np
from hypothesis import strategies as st

from pbt.common import env, runner

env.import_efootprint()

import pytz  # noqa: E402
from efootprint.abstract_modeling_classes.source_objects import SourceHourlyValues, SourceObject, SourceValue  # noqa: E402
from efootprint.builders.time_builders import create_hourly_usage_df_from_list  # noqa: E402
from efootprint.constants.units import u  # noqa: E402

ID = "C11"
TECHNIQUE = "property-based testing + exhaustive enumeration of (zone, DST transition) pairs against an inverse-by-verification placement reference (UTC->local is unambiguous)"
LEVEL_TEXT = ("all 596 pytz zones; windows around every UTC-offset transition (exhaustive over transitions 2000-2037 in "
              "the thorough tier, sampled in quick) plus random dates; totals, monotonic unique UTC index and placement "
              "of every value checked against a reference derived from the unambiguous UTC->local direction")
LEVEL_NOTE = "trusts pytz's UTC->local conversion (same tz database as the library uses)"
RULE = ("Cases: (zone in pytz.all_timezones, naive local start = a transition of the zone minus 0-30 h (or a random date "
        "1970-2037), minute offset 0 (10%: 15/30/45), length 1-72 or a year-long series of 4500-9000 hours, values). Oracle: total preserved; index strictly "
        "increasing, unique, UTC; every local hour with exactly one valid UTC instant is found at that instant; values of "
        "repeated hours sit at one of their two instants; values of skipped hours land in [gap end, gap end + gap + 1 h]; "
        "residual accounting: nothing appears anywhere else. Also through UsagePattern.utc_hourly_usage_journey_starts (year-long series included). "
        "Non-trivial = window containing a skipped or repeated local hour, or a zone offset that is not a whole hour.")
ASSUMPTIONS = ["pytz (2024.1, the library's own database) UTC->local conversion is the ground truth",
               "where the property leaves freedom (which of two repeated instants; where exactly after a gap) any "
               "placement inside the stated window is accepted"]
BUDGET = {"quick": dict(examples=350, wall_guard_s=600, exhaustive=False),
          "thorough": dict(examples=3000, wall_guard_s=3000, exhaustive=True)}
EXHAUSTIVE = {"quick": False, "thorough": True}

ALL_ZONES = list(pytz.all_timezones)
UTC = pytz.utc
_TRANS = {}


def transitions(zone_name):
    """[(naive utc transition, offset before, offset after)] of a zone (empty for fixed-offset zones)."""
    if zone_name not in _TRANS:
        z = pytz.timezone(zone_name)
        out = []
        tt = getattr(z, "_utc_transition_times", None)
        ti = getattr(z, "_transition_info", None)
        if tt and ti:
            for i in range(1, len(tt)):
                if tt[i].year < 1970 or tt[i].year > 2037:
                    continue
                out.append((tt[i], ti[i - 1][0], ti[i][0]))
        _TRANS[zone_name] = out
    return _TRANS[zone_name]


SAME_OFFSET_POOL = ["UTC", "Africa/Johannesburg", "Africa/Lagos", "Africa/Algiers", "Europe/Paris", "Europe/London",
                    "Europe/Helsinki", "Europe/Moscow", "Asia/Dubai", "Asia/Karachi", "Asia/Dhaka", "Asia/Bangkok",
                    "Asia/Shanghai", "Asia/Tokyo", "Australia/Brisbane", "Australia/Sydney", "Pacific/Auckland",
                    "Pacific/Fiji", "America/Caracas", "America/New_York", "America/Bogota", "America/Chicago",
                    "America/Regina", "America/Denver", "America/Phoenix", "America/Los_Angeles", "America/Sao_Paulo",
                    "America/Argentina/Buenos_Aires", "America/Halifax", "America/Puerto_Rico", "Atlantic/Azores",
                    "Atlantic/Cape_Verde", "Pacific/Honolulu", "America/Anchorage", "Etc/GMT+12", "Etc/GMT-14",
                    "Asia/Kolkata", "Asia/Colombo", "Australia/Adelaide", "Australia/Darwin"]


def offset_at(zone_name, naive):
    z = pytz.timezone(zone_name)
    try:
        return z.utcoffset(naive, is_dst=False)
    except Exception:
        try:
            return z.utcoffset(naive + timedelta(hours=3), is_dst=False)
        except Exception:
            return None


def zone_offsets(zone_name):
    z = pytz.timezone(zone_name)
    ti = getattr(z, "_transition_info", None)
    if ti:
        return sorted({x[0] for x in ti})
    return [z.utcoffset(datetime(2020, 1, 1))]


def valid_instants(z, offsets, t):
    """All UTC instants whose wall-clock time in zone z is the naive datetime t."""
    out = []
    for off in offsets:
        cand = t - off
        try:
            wall = UTC.localize(cand).astimezone(z).replace(tzinfo=None)
        except OverflowError:
            continue
        if wall == t and cand not in out:
            out.append(cand)
    return sorted(out)


def reference(zone_name, start, values):
    """For each local hour: list of valid instants; for skipped hours the allowed landing window."""
    z = pytz.timezone(zone_name)
    offs = zone_offsets(zone_name)
    hours = []
    for i, v in enumerate(values):
        t = start + timedelta(hours=i)
        inst = valid_instants(z, offs, t)
        window = None
        if not inst:
            # skipped wall time: find the gap [last valid wall before t, first valid wall after t]
            trs = [tr for tr in transitions(zone_name) if tr[2] > tr[1]
                   and tr[0] + tr[1] <= t < tr[0] + tr[2]]
            if trs:
                tr = trs[0]
                gap_end_utc = tr[0]
                gap = tr[2] - tr[1]
                # pandas' shift_forward: a 1-hour gap puts the hour at the gap end (or next full hour); for longer
                # gaps (Troll 2 h, Casey 3 h) the first skipped hours are merged into the hours just before the gap.
                # The property only says "merged, never dropped": accept [gap end - gap, gap end + gap + 1 h].
                window = (gap_end_utc - gap, gap_end_utc + gap + timedelta(hours=1))
            else:
                window = (t - max(offs) - timedelta(hours=1), t - min(offs) + timedelta(days=1, hours=1))
        hours.append((t, v, inst, window))
    return hours


def convert(zone_name, start, values):
    df = create_hourly_usage_df_from_list(values, start)
    src = SourceHourlyValues(df, label="local")
    res = src.convert_to_utc(SourceObject(pytz.timezone(zone_name), label="tz"))
    return src, res


def check_output(c, out_index, out_vals, ctx, where):
    """Shared oracle. out_index: pandas DatetimeIndex, out_vals: floats."""
    zone, start, values = c["zone"], datetime(*c["start"]), c["values"]
    probs = []
    if out_index.tz is None or str(out_index.tz) != "UTC":
        probs.append("index is not UTC (%s)" % out_index.tz)
        return probs, False
    naive = [ts.to_pydatetime().replace(tzinfo=None) for ts in out_index]
    if any(b <= a for a, b in zip(naive, naive[1:])):
        probs.append("timestamps not strictly increasing / duplicated")
    tot_in, tot_out = float(np.sum(values)), float(np.sum(out_vals))
    if abs(tot_in - tot_out) > 1e-9 * max(abs(tot_in), 1.0):
        probs.append("total %r became %r" % (tot_in, tot_out))
    ref = reference(zone, start, values)
    out = {}
    for t, v in zip(naive, out_vals):
        out[t] = out.get(t, 0.0) + float(v)
    resid = dict(out)
    allowed_extra = []     # (set of instants or window, value) for ambiguous / skipped hours
    special = False
    for t, v, inst, window in ref:
        if len(inst) == 1:
            uu = inst[0]
            if uu not in out:
                probs.append("local %s (single instant %s UTC) has no entry in the output" % (t, uu))
            resid[uu] = resid.get(uu, 0.0) - v
        elif len(inst) >= 2:
            special = True
            allowed_extra.append(("amb", inst, v, t))
        else:
            special = True
            allowed_extra.append(("skip", window, v, t))
    tol = 1e-9 * max(1.0, max(abs(x) for x in values))
    for uu, r in resid.items():
        if r < -tol:
            probs.append("instant %s UTC carries %r less than the local hours that map to it" % (uu, -r))
        elif r > tol:
            ok = False
            for kind, where_ok, v, t in allowed_extra:
                if kind == "amb" and uu in where_ok:
                    ok = True
                if kind == "skip" and where_ok[0] <= uu <= where_ok[1]:
                    ok = True
            if not ok:
                probs.append("instant %s UTC carries %r that no local hour can account for" % (uu, r))
    extra_total = sum(v for _, _, v, _ in allowed_extra)
    resid_total = sum(r for r in resid.values())
    if abs(extra_total - resid_total) > 10 * tol * max(1, len(values)):
        probs.append("repeated/skipped hours carry %r in total but %r is found at their instants" % (
            extra_total, resid_total))
    for kind, where_ok, v, t in allowed_extra:
        if kind == "amb" and v > tol:
            if sum(max(resid.get(x, 0.0), 0.0) for x in where_ok) < v - tol:
                probs.append("value %r of repeated local hour %s not found at any of its instants %s" % (
                    v, t, where_ok))
    z = pytz.timezone(zone)
    off_minutes = {int(o.total_seconds() // 60) % 60 for o in zone_offsets(zone)}
    return probs, special or off_minutes != {0}


@st.composite
def cases(draw):
    zone = draw(st.sampled_from(ALL_ZONES))
    trs = transitions(zone)
    n = draw(st.integers(1, 72))
    if trs and draw(st.floats(0, 1)) < 0.8:
        tr = draw(st.sampled_from(trs))
        anchor = tr[0] + tr[1]
        start = anchor.replace(minute=0, second=0, microsecond=0) - timedelta(hours=draw(st.integers(0, 30)))
        n = max(n, 2)
    else:
        start = datetime(1970, 1, 2) + timedelta(hours=draw(st.integers(0, 24 * 365 * 67)))
    if draw(st.floats(0, 1)) < 0.1:
        start = start.replace(minute=draw(st.sampled_from([15, 30, 45])))
    r = draw(st.floats(0, 1))
    level = "system" if r > 0.9 else ("two_zones" if r > 0.82 else "function")
    if draw(st.floats(0, 1)) < {"function": 0.05, "system": 0.15, "two_zones": 0.0}[level]:
        # a long series spanning several transitions (a year of hourly values: first and last hour often have the same
        # offset although the offset changed twice in between) - through the function and through a usage pattern
        n = draw(st.integers(4500, 9000))
        seedv = draw(st.integers(1, 97))
        vals = [float((i * seedv) % 13) for i in range(n)]
    else:
        vals = draw(st.lists(st.one_of(st.integers(0, 1000).map(float), st.integers(0, 400).map(lambda k: k / 8.0)),
                             min_size=n, max_size=n))
    if level == "two_zones":
        zone2 = draw(st.sampled_from(ALL_ZONES))
        if draw(st.floats(0, 1)) < 0.6:
            # a second zone with the same UTC offset at the start of the window (both UTC series then start at the same
            # instant, but only one of them may go through a transition)
            off = offset_at(zone, start)
            same = [z for z in SAME_OFFSET_POOL if z != zone and offset_at(z, start) == off]
            if same:
                zone2 = draw(st.sampled_from(same))
        return {"zone": zone, "zone2": zone2,
                "start": [start.year, start.month, start.day, start.hour, start.minute], "values": vals[:72],
                "level": level, "delay_h": draw(st.sampled_from([0, 0, 1, 2, 3]))}
    return {"zone": zone, "start": [start.year, start.month, start.day, start.hour, start.minute], "values": vals,
            "level": level}


def check(c, ctx):
    labels = ["level=" + c["level"]]
    start = datetime(*c["start"])
    try:
        if c["level"] == "function":
            src, res = convert(c["zone"], start, c["values"])
            df = res.value
            if not np.array_equal(np.asarray(src.value["value"].values.quantity.magnitude, dtype=float),
                                  np.asarray(c["values"], dtype=float)):
                ctx.violation("input_changed", c, "the local series was modified by the conversion",
                              {"kind": "input_changed"})
        elif c["level"] == "two_zones":
            check_two_zones(c, ctx, labels)
            return
        else:
            from efootprint.core.country import Country
            from efootprint.core.hardware.device import Device
            from efootprint.core.hardware.network import Network
            from efootprint.core.hardware.server import Server
            from efootprint.core.hardware.storage import Storage
            from efootprint.core.system import System
            from efootprint.core.usage.job import Job
            from efootprint.core.usage.usage_journey import UsageJourney
            from efootprint.core.usage.usage_journey_step import UsageJourneyStep
            from efootprint.core.usage.usage_pattern import UsagePattern
            srv = Server.from_defaults("srv", storage=Storage.from_defaults("st"))
            job = Job.from_defaults("job", server=srv)
            uj = UsageJourney("uj", [UsageJourneyStep("s", SourceValue(1 * u.min), [job])])
            cty = Country("c", "C", SourceValue(100 * u.g / u.kWh), SourceObject(pytz.timezone(c["zone"])))
            up = UsagePattern("up", uj, [Device.from_defaults("d")], Network.from_defaults("n"), cty,
                              SourceHourlyValues(create_hourly_usage_df_from_list(c["values"], start)))
            System("sys", [up])
            df = up.utc_hourly_usage_journey_starts.value
    except runner.Found:
        raise
    except Exception as ex:
        ctx.violation("conversion_error", c, "conversion raised %s: %s" % (type(ex).__name__, str(ex)[:300]),
                      {"kind": "conversion_error"})
        ctx.case(c, False, labels)
        return
    probs, special = check_output(c, df.index, np.asarray(df["value"].values.quantity.magnitude, dtype=float), ctx,
                                  c["level"])
    if probs:
        ctx.violation("wrong_conversion", c, "%s start %s n=%d: %s" % (c["zone"], start, len(c["values"]),
                                                                        "; ".join(probs[:3])),
                      {"kind": "wrong_conversion", "what": probs[0].split(" ")[0] + " " + probs[0].split(" ")[1]})
    if special:
        labels.append("dst_or_fractional_offset")
    if len(c["values"]) >= 4500:
        labels.append("year_long@" + c["level"])
    ctx.case(c, special, labels, sample={k: c[k] for k in ("zone", "start", "level")} | {"n": len(c["values"])})


def check_two_zones(c, ctx, labels):
    """Two usage patterns with the same local series in two zones share one job: the job's occurrences across usage
    patterns must be the timestamp-wise sum of the two UTC series (each checked against the reference)."""
    from efootprint.core.country import Country
    from efootprint.core.hardware.device import Device
    from efootprint.core.hardware.network import Network
    from efootprint.core.hardware.server import Server
    from efootprint.core.hardware.storage import Storage
    from efootprint.core.system import System
    from efootprint.core.usage.job import Job
    from efootprint.core.usage.usage_journey import UsageJourney
    from efootprint.core.usage.usage_journey_step import UsageJourneyStep
    from efootprint.core.usage.usage_pattern import UsagePattern
    start = datetime(*c["start"])
    srv = Server.from_defaults("srv", storage=Storage.from_defaults("st"))
    job = Job.from_defaults("job", server=srv)
    # the job may sit behind a first step of a whole number of hours: its occurrences are then the combined UTC series
    # moved by that delay, hole of a fall-back transition included
    delay = int(c.get("delay_h", 0))
    steps = [UsageJourneyStep("s", SourceValue(1 * u.min), [job])]
    if delay:
        steps.insert(0, UsageJourneyStep("wait", SourceValue(delay * u.hour), []))
    uj = UsageJourney("uj", steps)
    ups = []
    for i, z in enumerate((c["zone"], c["zone2"])):
        cty = Country("c%d" % i, "C", SourceValue(100 * u.g / u.kWh), SourceObject(pytz.timezone(z)))
        ups.append(UsagePattern("up%d" % i, uj, [Device.from_defaults("d%d" % i)], Network.from_defaults("n%d" % i),
                                cty, SourceHourlyValues(create_hourly_usage_df_from_list(c["values"], start))))
    System("sys", ups)
    special = False
    expected = {}
    for up, z in zip(ups, (c["zone"], c["zone2"])):
        df = up.utc_hourly_usage_journey_starts.value
        vals = np.asarray(df["value"].values.quantity.magnitude, dtype=float)
        probs, sp = check_output(dict(c, zone=z), df.index, vals, ctx, "two_zones")
        special = special or sp
        if probs:
            ctx.violation("wrong_conversion", c, "%s (usage pattern in %s): %s" % (z, z, "; ".join(probs[:2])),
                          {"kind": "wrong_conversion", "what": "two_zones"})
        for ts, v in zip(df.index, vals):
            ts = ts + timedelta(hours=delay)
            expected[ts] = expected.get(ts, 0.0) + float(v)
    got = job.hourly_occurrences_across_usage_patterns.value
    gvals = np.asarray(got["value"].values.quantity.magnitude, dtype=float)
    gmap = {ts: float(v) for ts, v in zip(got.index, gvals)}
    bad = [ts for ts in set(expected) | set(gmap) if abs(expected.get(ts, 0.0) - gmap.get(ts, 0.0)) > 1e-9 * max(
        1.0, abs(expected.get(ts, 0.0)))]
    if bad:
        ts = sorted(bad)[0]
        ctx.violation("zones_not_combined_on_utc", c,
                      "%s + %s: job occurrences at %s are %r, the two UTC series sum to %r" % (
                          c["zone"], c["zone2"], ts, gmap.get(ts, 0.0), expected.get(ts, 0.0)),
                      {"kind": "zones_not_combined_on_utc"})
    ctx.case(c, True, labels + ["two_zones"], sample={k: c[k] for k in ("zone", "zone2", "start", "level")})


def replay(case, ctx):
    check(case, ctx)


def run_shard(ctx):
    if ctx.budget.get("exhaustive"):
        # every (zone, transition 2000-2037) pair: a 48-hour window starting 6-29 h before the transition
        pairs = [(zn, tr) for zn in ALL_ZONES for tr in transitions(zn) if 2000 <= tr[0].year <= 2037]
        mine = [p for i, p in enumerate(pairs) if i % runner.NSHARDS == ctx.shard % runner.NSHARDS]
        ctx.extra["exhaustive_zone_transition_pairs"] = len(mine)
        for k, (zn, tr) in enumerate(mine):
            if ctx.expired():
                break
            back = 6 + (k * 7) % 24
            startdt = (tr[0] + tr[1]).replace(minute=0, second=0, microsecond=0) - timedelta(hours=back)
            vals = [float(1 + ((k + j * 13) % 17)) for j in range(48)]
            check({"zone": zn, "start": [startdt.year, startdt.month, startdt.day, startdt.hour, 0], "values": vals,
                   "level": "function"}, ctx)
    runner.run_given(ctx, cases(), lambda c: check(c, ctx), ctx.budget["examples"], shrink=True)
