"""C05 — A what-if simulation never disturbs the baseline model."""
from datetime import datetime, timedelta, timezone

import numpy as np
from hypothesis import strategies as st

from pbt.common import env, runner, snap, fresh as F, spec as S, gen as G, edits as E, ident as I, machine as M

env.import_efootprint()

from efootprint.abstract_modeling_classes.modeling_update import ModelingUpdate  # noqa: E402
from efootprint.abstract_modeling_classes.source_objects import SourceValue  # noqa: E402
from efootprint.constants.units import u  # noqa: E402

ID = "C05"
TECHNIQUE = "property-based testing (Hypothesis) over histories of simulations and set/reset toggles; invariant over the history: identity snapshot (same objects, same links, same dependency-edge multiset) and value snapshot of the baseline unchanged whenever no simulation is switched on"
LEVEL_TEXT = ("generated systems; sequences of dated simulations (numeric, hourly, time zone, choice, link, list and mixed "
              "change lists; valid, failing validation, failing recomputation; dates first/interior/last/before/after/"
              "naive) and of set/reset toggles in any order and multiplicity; the baseline must be the very same objects "
              "and graph after each construction (successful or raising) and after every reset, and afterwards ordinary edits "
              "of the baseline must give what a fresh build gives")
LEVEL_NOTE = "bookkeeping attributes documented as changing (previous_*, all_changes, simulation, twin markers) are excluded"
RULE = ("Hypothesis draws a system spec and 1-3 simulations, each = 1-3 simple edits (from the edit algebra, optionally "
        "an invalid value or a capacity-exceeding one), a date kind (first hour, interior, last hour, before, after, "
        "naive) and a toggle sequence (set/reset, repeated, interleaved with toggles of earlier simulations). Oracle, "
        "whenever no simulation is switched on: identity_snapshot(now) == identity_snapshot(baseline) (id() of every "
        "input, link wrapper, list, calculated value and dict entry; reverse links; multiset of ancestor/child edges) "
        "and snapshot values equal. In 60% of the cases 1-3 probe edits follow the simulations (an in-place operation "
        "on a list that a simulation replaced, then ordinary edits): each must leave the model equal to a fresh build of "
        "the same inputs. Non-trivial = a simulation that recomputed >=1 value or raised after changes were "
        "applied; distinct by case hash.")
ASSUMPTIONS = ["one simulation switched on at a time (two simultaneous what-ifs on overlapping values are not specified)",
               "edge order inside children lists is free; the multiset of edges is compared"]
BUDGET = {"quick": dict(examples=12, wall_guard_s=600), "thorough": dict(examples=200, wall_guard_s=3600)}
DATE_KINDS = ["first", "first", "interior", "interior", "last", "before", "after", "naive"]


@st.composite
def sim_changes(draw, spec, allow_bad=True, reachable_only=True):
    n = draw(st.integers(1, 3))
    out, seen, cur = [], set(), spec
    for _ in range(n):
        e = draw(G.simple_edit(cur))
        if reachable_only and e.get("obj", e["edits"][0]["obj"] if e["op"] == "group" else None) not in \
                S.spec_reachable(cur):
            # a what-if on an object outside the system is not a meaningful simulation: fall back (by construction)
            # to a numeric change on a reachable object
            names = sorted(x for x in S.spec_reachable(cur) if S.quantity_inputs(cur["objs"][x]["cls"]))
            e = draw(G.quantity_edit(cur, names=names))
        parts = e["edits"] if e["op"] == "group" else [e]
        if any((x["obj"], E._attr_of(x)) in seen for x in parts):
            continue
        for x in parts:
            seen.add((x["obj"], E._attr_of(x)))
            out.append(x)
        cur = E.apply_spec(cur, e)
    bad = None
    if allow_bad:
        r = draw(st.floats(0, 1))
        if r < 0.12:
            bad = "wrong_unit"
        elif r < 0.3:
            bad = "over_capacity"
        elif r < 0.38:
            bad = draw(st.sampled_from(["value_of_another_object", "same_new_value_twice",
                                        "computed_value_without_label"]))
    return out, bad


@st.composite
def cases(draw, allow_bad=True):
    spec = draw(G.specs(max_len=36, long_prob=0.05))
    sims = []
    for _ in range(draw(st.integers(1, 3))):
        ch, bad = draw(sim_changes(spec, allow_bad))
        toggles = draw(st.lists(st.tuples(st.sampled_from(["set", "reset"]), st.integers(0, 2)), min_size=0,
                                max_size=6))
        sims.append({"changes": ch, "bad": bad, "date_kind": draw(st.sampled_from(DATE_KINDS)),
                     "k": draw(st.integers(1, 30)), "toggles": [list(t) for t in toggles]})
    # afterwards the baseline must also *behave* as before: ordinary edits give what a fresh build gives
    probe = []
    if draw(st.floats(0, 1)) < 0.6:
        lists = sorted({(e["obj"], e["attr"]) for s_ in sims for e in s_["changes"]
                        if e["op"] == "list" and e["attr"] in ("jobs", "uj_steps") and spec["objs"][e["obj"]][e["attr"]]})
        if lists and draw(st.booleans()):
            # an in-place operation on a list that a simulation replaced and put back
            n, a = draw(st.sampled_from(lists))
            x = draw(st.sampled_from(spec["objs"][n][a]))
            m = draw(st.sampled_from(["append", "iadd", "insert", "pop"]))
            args = {"append": [x], "iadd": [[x]], "insert": [0, x], "pop": []}[m]
            if m == "pop" and len(spec["objs"][n][a]) < 2:
                m, args = "append", [x]
            probe.append(dict(op="listop", obj=n, attr=a, method=m, args=args))
        cur = spec
        for e in probe:
            cur = E.apply_spec(cur, e)
        probe += draw(G.histories(cur, min_steps=0 if probe else 1, max_steps=2, undo_prob=0.0, refusals=0.0))
    return {"spec": spec, "id_seed": draw(st.integers(0, 2 ** 20)), "sims": sims, "probe": probe}


def period(objs, spec):
    lo = hi = None
    for up in spec["system"]:
        c = snap.canon(objs[up].utc_hourly_usage_journey_starts)
        if c is None:
            continue
        a, b = int(c["t"][0]), int(c["t"][-1])
        lo = a if lo is None else min(lo, a)
        hi = b if hi is None else max(hi, b)
    return lo, hi


def full_period(objs):
    """First and last hour (ns, UTC) covered by any hourly value of the model: the modelled period extends past the
    last journey start (later steps, multi-hour requests, storage)."""
    lo = hi = None
    for c in snap.snapshot(S.reachable(objs)).values():
        for x in (c["__dict__"].values() if isinstance(c, dict) and "__dict__" in c else [c]):
            if isinstance(x, dict) and "t" in x and x.get("aware") and len(x["t"]):
                a, b = int(x["t"][0]), int(x["t"][-1])
                lo = a if lo is None else min(lo, a)
                hi = b if hi is None else max(hi, b)
    return lo, hi


def sim_date(kind, k, lo, hi):
    to_dt = lambda ns: datetime(1970, 1, 1, tzinfo=timezone.utc) + timedelta(microseconds=ns // 1000)
    if kind == "first":
        return to_dt(lo)
    if kind == "last":
        return to_dt(hi)
    if kind == "interior":
        n_hours = max(1, (hi - lo) // (3600 * 10 ** 9))
        return to_dt(lo + (k % (n_hours + 1)) * 3600 * 10 ** 9)
    # outside dates are mostly *just* outside (1-12 h): a bound computed with the wrong UTC offset is off by a few hours
    if kind == "before":
        return to_dt(lo) - timedelta(hours=1 + k % 12 if k % 5 else 24 * 3 + k)
    if kind == "after":
        return to_dt(hi) + timedelta(hours=1 + k % 12 if k % 5 else 24 * 3 + k)
    return to_dt(lo).replace(tzinfo=None)


def build_changes(objs, spec, sim):
    changes = E.changes_for_simulation(objs, sim["changes"])
    comp = F.spec_components(spec)
    if sim["bad"] == "wrong_unit" and comp["jobs"]:
        j = comp["jobs"][0]
        changes.append([objs[j].data_stored, SourceValue(3 * u.W)])
    if sim["bad"] == "over_capacity":
        plain = [s for s in comp["servers"] if spec["objs"][s]["cls"] == "Server"]
        if plain:
            srv = objs[plain[0]]
            if not any(c[0] is srv.base_ram_consumption for c in changes):
                changes.append([srv.base_ram_consumption, SourceValue(srv.ram.value * 5)])
    if sim["bad"] in ("value_of_another_object", "same_new_value_twice", "computed_value_without_label") and \
            len(comp["ups"]) >= 1:
        # "give this device the power of that one": the new value is the very value another object holds; or one new
        # value object used for two inputs. Neither can work; the baseline must not be touched.
        devs = sorted({d for up_ in comp["ups"] for d in spec["objs"][up_]["devices"]})
        srvs = comp["servers"]
        if devs and srvs and not any(c[0] is objs[srvs[0]].power or c[0] is objs[devs[0]].power for c in changes):
            if sim["bad"] == "value_of_another_object":
                changes.append([objs[srvs[0]].power, objs[devs[0]].power])
            elif sim["bad"] == "computed_value_without_label":
                changes.append([objs[srvs[0]].power, objs[devs[0]].power * SourceValue(2 * u.dimensionless)])
            else:
                nv = SourceValue(77 * u.W)
                changes += [[objs[srvs[0]].power, nv], [objs[devs[0]].power, nv]]
    return changes


def check(case, ctx):
    spec = case["spec"]
    objs, exc = F.build_case(case)
    if objs is None:
        ctx.case(case, False, ["invalid_initial"])
        return
    lo, hi = period(objs, spec)
    if lo is None:
        ctx.case(case, False, ["no_usage"])
        return
    reach = S.reachable(objs)
    base_id = I.identity_snapshot(reach)
    base_val = snap.snapshot(reach, calc=True, inputs=True)
    names = I.describe_graph(reach)
    labels = []
    nontrivial = False
    created = []
    on = None

    def assert_baseline(when, sim_idx):
        now = S.reachable(objs)
        probs = []
        if set(now) != set(reach):
            probs.append("reachable objects changed: %s" % sorted(set(now) ^ set(reach)))
        else:
            probs += I.compare_identity(base_id, I.identity_snapshot(reach), names)
            d = snap.compare(base_val, snap.snapshot(reach, calc=True, inputs=True))
            if d:
                probs.append("values changed: %s %s" % (d[0][0], d[0][1]))
        if probs:
            sim = case["sims"][sim_idx]
            ctx.violation("baseline_disturbed", dict(case, sims=case["sims"][:sim_idx + 1]),
                          "%s (changes %s, date %s%s): %s" % (when, [E.describe(e) for e in sim["changes"]],
                                                              sim["date_kind"], ", bad=%s" % sim["bad"] if sim["bad"]
                                                              else "", "; ".join(probs[:3])),
                          {"kind": "baseline_disturbed", "when": when.split(" ")[0],
                           "what": probs[0].split(":")[0][:40] if "graph" in probs[0] or "values" in probs[0]
                           else "objects", "bad": sim["bad"] or "none",
                           "date": sim["date_kind"] if sim["date_kind"] in ("before", "after", "naive") else "inside"})
            return False
        return True

    for si, sim in enumerate(case["sims"]):
        date = sim_date(sim["date_kind"], sim["k"], lo, hi)
        labels.append("date=" + sim["date_kind"])
        if sim["bad"]:
            labels.append("bad=" + sim["bad"])
        for e in sim["changes"]:
            labels.append("change=" + e["op"])
        try:
            changes = build_changes(objs, spec, sim)
        except Exception:
            ctx.case(case, False, labels + ["harness_could_not_build_changes"])
            return
        mu = None
        try:
            with M.watchdog():
                mu = ModelingUpdate(changes, date)
            labels.append("sim_created")
            if mu.values_to_recompute:
                nontrivial = True
        except M.Hang as ex:
            ctx.violation("simulation_hang", dict(case, sims=case["sims"][:si + 1]), str(ex),
                          {"kind": "simulation_hang"})
            break
        except Exception as ex:
            labels.append("sim_raised=" + type(ex).__name__)
            if sim["bad"] == "over_capacity":
                nontrivial = True
        if not assert_baseline("after_creation of simulation %d" % si, si):
            break
        if mu is not None:
            created.append(mu)
        # toggles
        ok = True
        for action, which in sim["toggles"]:
            if not created:
                break
            target = created[which % len(created)]
            if action == "set":
                if on is not None and on is not target:
                    on.reset_values()
                    on = None
                target.set_updated_values()
                on = target
                labels.append("toggle_set")
            else:
                target.reset_values()
                if on is target:
                    on = None
                labels.append("toggle_reset")
            if on is None:
                if not assert_baseline("after_reset (toggle %s of simulation %d)" % (action, si), si):
                    ok = False
                    break
        if on is not None:
            on.reset_values()
            on = None
            if ok and not assert_baseline("after_reset (final) of simulation %d" % si, si):
                ok = False
        if not ok:
            break
    else:
        probe_baseline(case, ctx, objs, labels)
    ctx.case(case, nontrivial, labels,
             sample={"sims": [{"changes": [E.describe(e) for e in s["changes"]], "bad": s["bad"],
                               "date": s["date_kind"], "toggles": s["toggles"]} for s in case["sims"]]})


def probe_baseline(case, ctx, objs, labels):
    """After the what-ifs: ordinary edits of the baseline must give what a fresh build of the same inputs gives."""
    cur = case["spec"]
    for i, e in enumerate(case.get("probe") or []):
        try:
            after = E.apply_spec(cur, e)
        except E.Inapplicable:
            return
        fresh, exc = F.build_case({"spec": after, "id_seed": case["id_seed"] + 50 + i})
        sig = {"kind": "baseline_behaves_differently", "edit": E.kind(cur, e)}
        try:
            with M.watchdog():
                E.apply_live(objs, e, cur)
        except Exception as ex:
            if fresh is not None:
                ctx.violation("baseline_behaves_differently", case,
                              "after the simulations, %s raised %s: %s although a system built with these inputs is "
                              "valid" % (E.describe(e), type(ex).__name__, str(ex)[:200]), dict(sig, how="raises"))
            return
        if fresh is None:
            return      # accepted although a fresh build refuses: C01's subject, not this check's
        labels.append("probe_edit")
        d = snap.compare(snap.snapshot(S.reachable(objs)), snap.snapshot(S.reachable(fresh)))
        if d:
            ctx.violation("baseline_behaves_differently", case,
                          "after the simulations, %s leaves %d calculated value(s) different from a fresh build; "
                          "first %s %s" % (E.describe(e), len(d), d[0][0], d[0][1]), dict(sig, how="stale"))
            return
        cur = after


def replay(case, ctx):
    check(case, ctx)


def run_shard(ctx):
    runner.run_given(ctx, cases(), lambda c: check(c, ctx), ctx.budget["examples"])
