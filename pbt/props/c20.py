"""C20 — Hourly-series builders produce exactly the requested time line."""
import calendar
import math
from datetime import datetime, timedelta

import numpy as np
from hypothesis import strategies as st

from pbt.common import env, runner

env.import_efootprint()

from efootprint.builders import time_builders as tb  # noqa: E402
from efootprint.constants.units import u  # noqa: E402

ID = "C20"
TECHNIQUE = "property-based testing (Hypothesis, shrinking on) against independent calendar arithmetic with datetime"
LEVEL_TEXT = ("generated start dates / spans / units / lists / frequencies / active days / hours checked against an "
              "independent calendar oracle written with datetime; exploration")
LEVEL_NOTE = "trusts Python's datetime/calendar for weekday, day-of-month and day-of-year"
RULE = ("Hypothesis draws a builder call: start date 1999-2040 (leap days, month/year ends, any hour), span (whole or "
        "fractional days), unit, list of values (len 1-300), or frequency x active days x hours. Oracle: index starts at "
        "the start date, step exactly 1 h, no gap/duplicate, requested unit; list reproduced element-wise; frequency "
        "series equal to the volume exactly at hours whose (hour, weekday | day of month | day of year) match and 0 "
        "elsewhere; daily volume sums to the volume on every full calendar day; linear growth endpoints/monotonic; "
        "sinusoid and daily fluctuation match the closed form. Non-trivial = frequency case whose active set is hit "
        "at least once and missed at least once, or list/fluctuation case with >= 25 hours or non-midnight start.")
ASSUMPTIONS = ["the list of hours of a daily volume contains distinct hours (a duplicate hour is not a meaningful request)",
               "active_days semantics as documented in the code: weekday 0=Monday, day of month 1-31, day of year 1-366",
               "the number of hours of frequency-based series follows pandas date_range(start, start+timespan) inclusive"]
BUDGET = {"quick": dict(examples=250, wall_guard_s=600), "thorough": dict(examples=6000, wall_guard_s=3000)}

UNIT_CHOICES = ["dimensionless", "GB", "kWh", "cpu_core", "kg"]


@st.composite
def starts(draw):
    mode = draw(st.sampled_from(["any", "edge"]))
    if mode == "edge":
        y = draw(st.sampled_from([1999, 2000, 2023, 2024, 2025, 2028, 2040]))
        m, d = draw(st.sampled_from([(1, 1), (2, 27), (2, 28), (3, 1), (12, 30), (12, 31), (1, 31), (4, 30), (10, 27)]))
        base = datetime(y, m, d)
    else:
        base = datetime(1999, 1, 1) + timedelta(days=draw(st.integers(0, 365 * 41)))
    return base + timedelta(hours=draw(st.sampled_from([0, 0, 0, 1, 5, 12, 23, 7])))


@st.composite
def cases(draw):
    kind = draw(st.sampled_from(["list", "source_list", "frequency", "frequency", "frequency", "daily_volume",
                                 "linear", "sinus", "daily_fluct"]))
    s = draw(starts())
    c = {"kind": kind, "start": [s.year, s.month, s.day, s.hour], "unit": draw(st.sampled_from(UNIT_CHOICES))}
    if kind in ("list", "source_list"):
        n = draw(st.integers(1, 300))
        c["values"] = draw(st.lists(st.one_of(st.integers(0, 10 ** 6).map(float), st.floats(-1e6, 1e6)),
                                    min_size=n, max_size=n))
        return c
    if kind in ("frequency", "daily_volume"):
        c["span_days"] = draw(st.one_of(st.integers(1, 40).map(float), st.sampled_from([0.5, 1.25, 2.5, 366.0, 400.0]),
                                        st.integers(300, 800).map(float)))
        if draw(st.floats(0, 1)) < 0.3:
            # the same span written as a sum in mixed units (1 day + 7 hour is 30.999999999999996 h for pint)
            d_, h_ = draw(st.integers(0, 20)), draw(st.integers(1, 23))
            c["span_parts"] = [d_, h_, draw(st.sampled_from(["hour", "s", "min"]))]
            c["span_days"] = d_ + h_ / 24.0
        c["hours"] = draw(st.one_of(st.none(), st.lists(st.integers(0, 23), min_size=1, max_size=5, unique=True)))
        if kind == "daily_volume":
            c["hours"] = c["hours"] or [draw(st.integers(0, 23))]
            c["volume"] = float(draw(st.integers(1, 10000)))
            return c
        c["frequency"] = draw(st.sampled_from(["daily", "weekly", "monthly", "yearly"]))
        c["volume"] = draw(st.one_of(st.integers(1, 1000).map(float), st.floats(0.001, 1000)))
        if c["frequency"] == "daily":
            c["active_days"] = None
        elif c["frequency"] == "weekly":
            c["active_days"] = draw(st.one_of(st.none(), st.lists(st.integers(0, 6), min_size=0, max_size=4)))
        elif c["frequency"] == "monthly":
            c["active_days"] = draw(st.one_of(st.none(), st.lists(st.sampled_from([1, 2, 15, 28, 29, 30, 31]),
                                                                  min_size=0, max_size=4)))
        else:
            c["active_days"] = draw(st.one_of(st.none(), st.lists(st.sampled_from([1, 2, 59, 60, 61, 100, 365, 366]),
                                                                  min_size=0, max_size=4)))
        return c
    c["span_hours"] = draw(st.integers(2, 24 * 20))
    if kind == "linear":
        c["v0"], c["v1"] = draw(st.integers(0, 1000)), draw(st.integers(0, 1000))
    elif kind == "sinus":
        c["amp"], c["period"] = draw(st.integers(1, 100)), draw(st.integers(1, 200))
    else:
        c["scale"] = draw(st.sampled_from([0.1, 0.5, 1.0, 0.99]))
        c["hmin"] = draw(st.integers(0, 23))
    return c


def check_timeline(df, start, unit, n=None):
    idx = df.index
    probs = []
    if len(idx) == 0:
        return ["empty series"]
    if idx[0].to_pydatetime() != start:
        probs.append("first timestamp %s instead of %s" % (idx[0], start))
    steps = np.diff(idx.values).astype("timedelta64[s]").astype(int)
    if len(steps) and not np.all(steps == 3600):
        probs.append("steps are not all 1 hour: %s" % sorted(set(steps.tolist()))[:5])
    if n is not None and len(idx) != n:
        probs.append("%d values instead of %d" % (len(idx), n))
    if list(df.columns) != ["value"]:
        probs.append("columns %s" % list(df.columns))
    if str(df.dtypes.iloc[0].units) != str(u(unit).units):
        probs.append("unit %s instead of %s" % (df.dtypes.iloc[0].units, unit))
    return probs


def mags(df):
    return np.asarray(df["value"].values.quantity.magnitude, dtype=float)


def check(c, ctx):
    start = datetime(*c["start"])
    unit = c["unit"]
    kind = c["kind"]
    labels = ["kind=" + kind]
    nontrivial = False
    probs = []
    try:
        if kind in ("list", "source_list"):
            if kind == "list":
                df = tb.create_hourly_usage_df_from_list(c["values"], start, u(unit))
            else:
                df = tb.create_source_hourly_values_from_list(c["values"], start, u(unit)).value
            probs += check_timeline(df, start, unit, len(c["values"]))
            if not probs and not np.array_equal(mags(df), np.asarray(c["values"], dtype=float)):
                probs.append("values differ from the list")
            nontrivial = len(c["values"]) >= 25 or start.hour != 0
        elif kind in ("frequency", "daily_volume"):
            span = c["span_days"] * u.day
            if c.get("span_parts"):
                d_, h_, unit_ = c["span_parts"]
                span = d_ * u.day + {"hour": h_ * u.hour, "s": h_ * 3600 * u.s, "min": h_ * 60 * u.min}[unit_]
            if kind == "frequency":
                obj = tb.create_hourly_usage_from_frequency(span, c["volume"], c["frequency"], c["active_days"],
                                                            c["hours"], start, u(unit))
                freq, days, vol = c["frequency"], c["active_days"], c["volume"]
            else:
                obj = tb.create_hourly_usage_from_daily_volume_and_list_of_hours(span, c["volume"], c["hours"], start,
                                                                                 u(unit))
                freq, days, vol = "daily", None, c["volume"] / len(c["hours"])
            df = obj.value
            n_expected = int(math.floor(c["span_days"] * 24 + 1e-9)) + 1
            if c.get("span_parts"):
                n_expected = c["span_parts"][0] * 24 + c["span_parts"][1] + 1
            probs += check_timeline(df, start, unit, n_expected)
            hours = c["hours"] if c["hours"] is not None else [0]
            if days is None:
                days = [0] if freq == "weekly" else [1]
            exp = np.zeros(len(df))
            hits = 0
            for i in range(len(df)):
                t = start + timedelta(hours=i)
                if t.hour not in hours:
                    continue
                if freq == "daily":
                    ok = True
                elif freq == "weekly":
                    ok = calendar.weekday(t.year, t.month, t.day) in days
                elif freq == "monthly":
                    ok = t.day in days
                else:
                    ok = t.timetuple().tm_yday in days
                if ok:
                    exp[i] = vol
                    hits += 1
            got = mags(df)
            if len(got) == len(exp) and not np.array_equal(got, exp):
                i = int(np.argmax(got != exp))
                probs.append("hour %s: %r instead of %r" % (start + timedelta(hours=i), got[i], exp[i]))
            if kind == "daily_volume" and not probs:
                # every full calendar day sums to the daily volume
                day = start.date()
                per_day = {}
                for i, v in enumerate(got):
                    t = start + timedelta(hours=i)
                    per_day.setdefault(t.date(), []).append(v)
                for d, vs in per_day.items():
                    if len(vs) == 24 and abs(sum(vs) - c["volume"] * len(hours) / len(c["hours"])) > 1e-9 * c["volume"]:
                        probs.append("day %s sums to %r instead of %r" % (d, sum(vs), c["volume"]))
                        break
            nontrivial = 0 < hits < len(df)
            labels.append("freq=" + freq)
            labels.append("hit" if hits else "no_hit")
        else:
            span = c["span_hours"] * u.hour
            n = c["span_hours"]
            if kind == "linear":
                df = tb.linear_growth_hourly_values(span, c["v0"], c["v1"], start, u(unit)).value
                probs += check_timeline(df, start, unit, n)
                if not probs:
                    g = mags(df)
                    exp = np.linspace(c["v0"], c["v1"], n)
                    if not np.allclose(g, exp, rtol=1e-12, atol=1e-9):
                        probs.append("not the linear ramp")
                    d = np.diff(g)
                    if not (np.all(d >= -1e-9) or np.all(d <= 1e-9)):
                        probs.append("not monotonic")
            elif kind == "sinus":
                df = tb.sinusoidal_fluct_hourly_values(span, c["amp"], c["period"], start, u(unit)).value
                probs += check_timeline(df, start, unit, n)
                if not probs:
                    exp = np.array([c["amp"] * math.sin(2 * math.pi * i / c["period"]) for i in range(n)])
                    if not np.allclose(mags(df), exp, rtol=1e-9, atol=1e-9 * c["amp"]):
                        probs.append("not the requested sinusoid")
            else:
                df = tb.daily_fluct_hourly_values(span, c["scale"], c["hmin"], start, u(unit)).value
                probs += check_timeline(df, start, unit, n)
                if not probs:
                    g = mags(df)
                    exp = np.array([1 + c["scale"] * math.sin(3 * math.pi / 2 + 2 * math.pi * (
                        ((start.hour + i) % 24) - c["hmin"]) / 24) for i in range(n)])
                    if not np.allclose(g, exp, rtol=1e-9, atol=1e-12):
                        probs.append("not the requested daily fluctuation")
                    if n >= 24:
                        i = int(np.argmin(g[:24]))
                        if (start.hour + i) % 24 != c["hmin"]:
                            probs.append("minimum at hour %d instead of %d" % ((start.hour + i) % 24, c["hmin"]))
            nontrivial = n >= 25 or start.hour != 0
    except runner.Found:
        raise
    except Exception as ex:
        probs.append("raised %s: %s" % (type(ex).__name__, str(ex)[:200]))
    for p in probs[:1]:
        ctx.violation("wrong_timeline", c, "%s: %s" % ({k: v for k, v in c.items() if k != "values"}, p),
                      {"kind": "wrong_timeline", "builder": kind})
    ctx.case(c, nontrivial, labels)


def replay(case, ctx):
    check(case, ctx)


def run_shard(ctx):
    runner.run_given(ctx, cases(), lambda c: check(c, ctx), ctx.budget["examples"], shrink=True)
