"""C17 — Service and cloud-server builders are faithful shorthand."""
import copy
import csv
import math
import re

from hypothesis import strategies as st

from pbt.common import env, runner, snap, fresh as F, spec as S, gen as G, edits as E, machine as M

env.import_efootprint()

ID = "C17"
TECHNIQUE = "differential + rule-based property testing (Hypothesis) with exhaustive enumeration of the categorical choices in the thorough tier: builder model vs the model in which service jobs / cloud servers are replaced by plain jobs / servers carrying the derived parameters; derived parameters recomputed by the harness from the stated rule; refresh after an edit of a builder input"
LEVEL_TEXT = ("all builder classes; categorical choices (7 resolutions, 29 Ecobenchmark rows, 295 EcoLogits models, 1919 "
              "Boavizta instance types) enumerated completely in the thorough tier and sampled in quick; numeric "
              "parameters and the surrounding system generated; builder jobs alone or mixed with plain jobs on one server")
LEVEL_NOTE = "Boavizta figures are read through the packaged API (call_boaviztapi) independently of the BoaviztaCloudServer mapping code; EcoLogits parameters through its model repository; the Ecobenchmark CSV with the csv module"
RULE = ("Hypothesis draws a system spec with builder classes and 1-4 successive edits of builder inputs. (rule) video: bitrate = "
        "pixels x bits per pixel x frame rate (bits/s), data = bitrate x duration, CPU = static cost x bitrate, RAM = "
        "buffer, request duration = video duration; web application: CPU and RAM = the CSV row of (technology, "
        "implementation), read independently; GenAI: token weights, data = 100 kB + weights, latency = tokens x (alpha x "
        "active parameters + beta), GPUs = memory factor x active parameters x bits / RAM per GPU, model RAM = factor x "
        "total parameters x bits; cloud server: RAM / vCPU / average power / embedded carbon of the packaged Boavizta "
        "answer. (differential) the model where video/web jobs become plain Jobs with the derived parameters on the "
        "same server (service base consumption added to the server's) and cloud servers become plain Servers has the "
        "same calculated attributes for servers, storages, networks, usage patterns and system. (refresh) after the "
        "edit the rule holds again and the live model equals a fresh build. Thorough: every categorical value in a "
        "minimal system. Non-trivial = every categorical value; a server mixing builder and plain jobs.")
ASSUMPTIONS = ["GenAI jobs run on GPU servers whose compute unit (gpu) a plain Job cannot express: they are checked by "
               "rule and refresh, not by replacement",
               "relative tolerance 1e-9"]
BUDGET = {"quick": dict(examples=10, wall_guard_s=600, enumerate=False, sample_categorical=4),
          "thorough": dict(examples=120, wall_guard_s=4000, enumerate=True)}
EXHAUSTIVE = {"quick": False, "thorough": True}
_CSV = None


def csv_rows():
    global _CSV
    if _CSV is None:
        from efootprint.builders.services.ecobenchmark_analysis.ecobenchmark_data_analysis import ECOBENCHMARK_DATA
        with open(ECOBENCHMARK_DATA) as f:
            _CSV = {(r["service"], r["use_case"]): r for r in csv.DictReader(f)}
    return _CSV


def base(v):
    c = snap.canon(v)
    return 0.0 if c is None else c["m"]


def close(a, b, rtol=1e-9):
    return abs(a - b) <= rtol * max(abs(a), abs(b)) + 1e-300


def rule_problems(spec, objs, names=None):
    probs = []
    for n in (names or sorted(S.spec_reachable(spec))):
        e = spec["objs"][n]
        o = objs[n]
        cls = e["cls"]
        if cls == "VideoStreamingJob":
            svc = objs[e["service"]]
            w, h = map(int, re.search(r"\((\d+)\s*x\s*(\d+)\)", e["resolution"]).groups())
            bpp = base(svc.bits_per_pixel)
            fps = base(o.refresh_rate)                    # 1/s
            bitrate = w * h * bpp * fps                   # bits per second (dimensionless/s in pint)
            dur = base(o.video_duration)
            for what, got, exp in (("dynamic_bitrate", base(o.dynamic_bitrate), bitrate),
                                   ("data_transferred", base(o.data_transferred), bitrate * dur),
                                   ("request_duration", base(o.request_duration), dur),
                                   ("compute_needed", base(o.compute_needed), base(svc.static_delivery_cpu_cost) * bitrate),
                                   ("ram_needed", base(o.ram_needed), base(svc.ram_buffer_per_user))):
                if not close(got, exp):
                    probs.append(("VideoStreamingJob." + what, "%s.%s = %r, the rule gives %r (resolution %s)" % (
                        n, what, got, exp, e["resolution"])))
        elif cls == "WebApplicationJob":
            tech = spec["objs"][e["service"]]["technology"]
            impl = e.get("implementation_details", "default")
            row = csv_rows().get((tech, impl))
            if row is None:
                continue
            for what, got, exp in (
                    ("compute_needed", base(o.compute_needed), float(row["avg_cpu_core_per_request"])),
                    ("ram_needed", base(o.ram_needed), float(row["avg_ram_per_request_in_MB"]) * 8e6),
                    ("request_duration", base(o.request_duration), 1.0)):
                if not close(got, exp):
                    probs.append(("WebApplicationJob." + what, "%s.%s = %r, the Ecobenchmark row (%s, %s) gives %r" % (
                        n, what, got, tech, impl, exp)))
        elif cls == "GenAIJob":
            svc = objs[e["service"]]
            tokens = base(o.output_token_count)
            weights = tokens * base(svc.bits_per_token)
            active, total = genai_params(spec["objs"][e["service"]])
            lat = tokens * (base(svc.gpu_latency_alpha) * active + base(svc.gpu_latency_beta))
            gpus = base(svc.llm_memory_factor) * active * base(svc.nb_of_bits_per_parameter) / base(
                objs[spec["objs"][e["service"]]["server"]].ram_per_gpu)
            for what, got, exp in (("output_token_weights", base(o.output_token_weights), weights),
                                   ("data_transferred", base(o.data_transferred), 100e3 * 8 + weights),
                                   ("data_stored", base(o.data_stored), 100e3 * 8 + weights),
                                   ("request_duration", base(o.request_duration), lat),
                                   ("compute_needed", base(o.compute_needed), gpus),
                                   ("ram_needed", base(o.ram_needed), 0.0)):
                if not close(got, exp):
                    probs.append(("GenAIJob." + what, "%s.%s = %r, the rule gives %r (%s/%s)" % (
                        n, what, got, exp, spec["objs"][e["service"]]["provider"],
                        spec["objs"][e["service"]]["model_name"])))
        elif cls == "GenAIModel":
            active, total = genai_params(e)
            exp = base(o.llm_memory_factor) * total * base(o.nb_of_bits_per_parameter)
            for what, got, ex in (("active_params", base(o.active_params), active),
                                  ("total_params", base(o.total_params), total),
                                  ("base_ram_consumption", base(o.base_ram_consumption), exp)):
                if not close(got, ex):
                    probs.append(("GenAIModel." + what, "%s.%s = %r, the rule gives %r" % (n, what, got, ex)))
        elif cls == "BoaviztaCloudServer":
            from efootprint.builders.hardware.boaviztapi_utils import call_boaviztapi
            r = call_boaviztapi(url="https://api.boavizta.org/v1/cloud/instance",
                                params={"provider": e["provider"], "instance_type": e["instance_type"]})
            for what, got, exp in (("ram", base(o.ram), r["verbose"]["memory"]["value"] * 8e9),
                                   ("compute", base(o.compute), r["verbose"]["vcpu"]["value"]),
                                   ("power", base(o.power), r["verbose"]["avg_power"]["value"]),
                                   ("carbon_footprint_fabrication", base(o.carbon_footprint_fabrication),
                                    r["impacts"]["gwp"]["embedded"]["value"])):
                if not close(got, exp):
                    probs.append(("BoaviztaCloudServer." + what, "%s.%s = %r, Boavizta data for %s/%s give %r" % (
                        n, what, got, e["provider"], e["instance_type"], exp)))
    return probs


def genai_params(entry):
    from efootprint.builders.services.generative_ai_ecologits import models
    from ecologits.utils.range_value import RangeValue
    p = models.find_model(provider=entry["provider"], model_name=entry["model_name"]).architecture.parameters

    def val(x):
        return (x.min + x.max) / 2 if isinstance(x, RangeValue) else x
    if isinstance(p, (int, float)) or isinstance(p, RangeValue):
        return val(p) * 1e9, val(p) * 1e9
    return val(p.active) * 1e9, val(p.total) * 1e9


def plain_equivalent(spec, objs):
    """The spec in which video/web jobs are plain Jobs and cloud servers plain Servers, with derived parameters."""
    sp = copy.deepcopy(spec)
    replaced = []
    add_ram, add_cpu = {}, {}
    for n, e in spec["objs"].items():
        if e["cls"] in ("VideoStreaming", "WebApplication") and n in objs:
            add_ram[e["server"]] = add_ram.get(e["server"], 0.0) + base(objs[n].base_ram_consumption)
            add_cpu[e["server"]] = add_cpu.get(e["server"], 0.0) + base(objs[n].base_compute_consumption)
    for n, e in spec["objs"].items():
        if e["cls"] in ("VideoStreamingJob", "WebApplicationJob") and n in objs:
            o = objs[n]
            sp["objs"][n] = {"cls": "Job", "server": spec["objs"][e["service"]]["server"],
                             "data_transferred": [base(o.data_transferred), "bit"],
                             "data_stored": [base(o.data_stored), "bit"],
                             "request_duration": [base(o.request_duration), "s"],
                             "compute_needed": [base(o.compute_needed), "cpu_core"],
                             "ram_needed": [base(o.ram_needed), "bit"]}
            replaced.append(n)
    for n, e in list(spec["objs"].items()):
        if e["cls"] in ("VideoStreaming", "WebApplication"):
            del sp["objs"][n]
    for n, e in spec["objs"].items():
        if e["cls"] in S.SERVER_CLS and n in objs and (n in add_ram or e["cls"] == "BoaviztaCloudServer"):
            o = objs[n]
            ne = sp["objs"][n]
            ne["base_ram_consumption"] = [base(o.base_ram_consumption) + add_ram.get(n, 0.0), "bit"]
            ne["base_compute_consumption"] = [base(o.base_compute_consumption) + add_cpu.get(n, 0.0), "cpu_core"]
            if e["cls"] == "BoaviztaCloudServer":
                ne["cls"] = "Server"
                ne.pop("provider"), ne.pop("instance_type")
                ne["ram"] = [base(o.ram), "bit"]
                ne["compute"] = [base(o.compute), "cpu_core"]
                ne["power"] = [base(o.power), "W"]
                ne["carbon_footprint_fabrication"] = [base(o.carbon_footprint_fabrication) / 1.0, "kg"]
                for a in ("idle_power", "lifespan", "power_usage_effectiveness", "average_carbon_intensity",
                          "server_utilization_rate"):
                    if a not in ne:
                        ne[a] = S.default_quantity("BoaviztaCloudServer", a)
                replaced.append(n)
    return sp, replaced


BUILDER_ONLY = {"dynamic_bitrate", "api_call_response", "output_token_weights", "active_params", "total_params"}


def differential_problems(spec, objs, seed):
    sp, replaced = plain_equivalent(spec, objs)
    if not replaced and not any(e["cls"] in ("VideoStreaming", "WebApplication") for e in spec["objs"].values()):
        return [], 0
    plain, exc = F.build_case({"spec": sp, "id_seed": seed})
    if plain is None:
        return [("plain_equivalent_invalid", "the plain-job/plain-server equivalent cannot be built: %s" % exc)], 0
    rb, rp = S.reachable(objs), S.reachable(plain)
    sb, spn = snap.snapshot(rb), snap.snapshot(rp)
    probs = []
    compared = 0
    for key in sorted(set(sb) & set(spn)):
        if key[1] in BUILDER_ONLY:
            continue
        if key[0] in replaced and key[1] in ("data_transferred", "data_stored", "request_duration", "compute_needed",
                                             "ram_needed", "carbon_footprint_fabrication", "power", "ram", "compute"):
            continue      # inputs on the plain side
        compared += 1
        ok, why = snap.close(sb[key], spn[key], atol=snap.atol_for(key))
        if not ok:
            probs.append(("differs_from_plain_equivalent", "%s.%s differs between the builder model and its plain "
                                                           "equivalent: %s" % (key[0], key[1], why)))
    missing = [n for n in rb if n not in rp and spec["objs"].get(n, {}).get("cls") not in ("VideoStreaming",
                                                                                           "WebApplication")]
    if missing:
        probs.append(("differs_from_plain_equivalent", "objects %s are not reachable in the plain equivalent" % missing))
    return probs, compared


@st.composite
def builder_edit(draw, spec):
    cands = []
    for n in sorted(S.spec_reachable(spec)):
        e = spec["objs"][n]
        if e["cls"] in ("VideoStreaming", "VideoStreamingJob", "WebApplicationJob", "GenAIModel", "GenAIJob"):
            for a in S.quantity_inputs(e["cls"]):
                cands.append(("q", n, a))
        if e["cls"] == "VideoStreamingJob":
            cands.append(("choice", n, "resolution"))
        if e["cls"] == "WebApplicationJob":
            cands.append(("choice", n, "implementation_details"))
        if e["cls"] == "BoaviztaCloudServer":
            cands.append(("choice", n, "instance_type"))
        if e["cls"] == "GPUServer":
            cands.append(("q", n, "ram_per_gpu"))
        if e["cls"] == "GenAIModel":
            for a in ("model_name", "provider+model_name", "model+tokens"):
                cands.append(("genai", n, a))
    for n in sorted(S.spec_reachable(spec)):
        e = spec["objs"][n]
        if e["cls"] in ("VideoStreamingJob", "WebApplicationJob", "GenAIJob"):
            scls = spec["objs"][e["service"]]["cls"]
            pool = [t for t, te in spec["objs"].items() if te["cls"] == scls and t != e["service"]]
            if e["cls"] == "WebApplicationJob":
                impl = e.get("implementation_details", "default")
                pool = [t for t in pool if (spec["objs"][t]["technology"], impl) in G.web_choices()]
            for t in pool:
                cands.append(("link", n, t))
                cands.append(("link", n, t))
    if not cands:
        return None
    k, n, a = draw(st.sampled_from(cands))
    e = spec["objs"][n]
    if k == "link":
        return dict(op="link", obj=n, attr="service", target=a)
    if k == "genai":
        return draw(G.genai_model_edit(spec, n, a))
    if k == "q":
        cur = e.get(a) or S.default_quantity(e["cls"], a)
        f = draw(st.sampled_from([0.5, 2.0, 3.0]))
        return dict(op="q", obj=n, attr=a, val=[cur[0] * f, cur[1]])
    if a == "resolution":
        return dict(op="choice", obj=n, attr=a, val=draw(st.sampled_from(G.RESOLUTIONS)))
    if a == "implementation_details":
        tech = spec["objs"][e["service"]]["technology"]
        return dict(op="choice", obj=n, attr=a, val=draw(st.sampled_from([u for t, u in G.web_choices() if t == tech])))
    return dict(op="choice", obj=n, attr=a, val=draw(st.sampled_from(
        [i for p, i in G.boavizta_choices() if p == e["provider"]])))


@st.composite
def cases(draw):
    spec = draw(G.specs(builders=True, max_len=18, long_prob=0.0, prefer_gpu=0.3))
    # 1-4 successive edits of builder inputs (a stale cache or a lost dependency often needs A -> B -> A -> C)
    edits, cur = [], spec
    for _ in range(draw(st.integers(1, 4))):
        e = draw(builder_edit(cur))
        if e is None:
            break
        edits.append(e)
        cur = E.apply_spec(cur, e)
    return {"mode": "generated", "spec": spec, "id_seed": draw(st.integers(0, 2 ** 20)), "edits": edits}


def minimal_spec(kind, choice):
    """A minimal system around one categorical value."""
    objs = {"st0": {"cls": "Storage"}, "dev0": {"cls": "Device"}, "cty0": {"cls": "Country", "timezone": "UTC"},
            "net0": {"cls": "Network"}}
    if kind == "boavizta":
        objs["srv0"] = {"cls": "BoaviztaCloudServer", "storage": "st0", "server_type": "autoscaling",
                        "provider": choice[0], "instance_type": choice[1]}
        objs["job0"] = {"cls": "Job", "server": "srv0", "ram_needed": [10.0, "MB"], "compute_needed": [0.01, "cpu_core"]}
    elif kind == "genai":
        need_gb = 1.2 * choice[2] * 1e9 * 16 / 8e9
        objs["srv0"] = {"cls": "GPUServer", "storage": "st0", "server_type": "serverless",
                        "compute": [float(math.ceil(need_gb / 80.0) + 2), "gpu"]}
        objs["svc0"] = {"cls": "GenAIModel", "server": "srv0", "provider": choice[0], "model_name": choice[1]}
        objs["job0"] = {"cls": "GenAIJob", "service": "svc0"}
    elif kind == "web":
        objs["srv0"] = {"cls": "Server", "storage": "st0", "server_type": "autoscaling"}
        objs["svc0"] = {"cls": "WebApplication", "server": "srv0", "technology": choice[0]}
        objs["job0"] = {"cls": "WebApplicationJob", "service": "svc0", "implementation_details": choice[1]}
        objs["job1"] = {"cls": "Job", "server": "srv0"}
    else:
        objs["srv0"] = {"cls": "Server", "storage": "st0", "server_type": "autoscaling"}
        objs["svc0"] = {"cls": "VideoStreaming", "server": "srv0"}
        objs["job0"] = {"cls": "VideoStreamingJob", "service": "svc0", "resolution": choice,
                        "video_duration": [20.0, "min"]}
        objs["job1"] = {"cls": "Job", "server": "srv0"}
    jobs = [n for n in objs if n.startswith("job")]
    objs["step0"] = {"cls": "UsageJourneyStep", "jobs": jobs}
    objs["uj0"] = {"cls": "UsageJourney", "uj_steps": ["step0"]}
    objs["up0"] = {"cls": "UsagePattern", "usage_journey": "uj0", "devices": ["dev0"], "network": "net0",
                   "country": "cty0", "start": [2025, 1, 1, 0], "starts": [3.0, 1.0, 4.0]}
    return {"objs": objs, "system": ["up0"], "sharing": "none"}


def categorical_universe():
    out = [("video", r) for r in G.RESOLUTIONS]
    out += [("web", list(c)) for c in G.web_choices()]
    import itertools
    techs = sorted({t for t, _ in G.web_choices()})
    impls = sorted({i for _, i in G.web_choices()})
    out += [("web", [t, i]) for t, i in itertools.product(techs, impls) if (t, i) not in G.web_choices()]
    out += [("genai", list(c)) for c in G.genai_choices()]
    out += [("boavizta", list(c)) for c in G.boavizta_choices(include_broken=True)]
    return out


def check(case, ctx):
    if case["mode"] == "categorical":
        kind, choice = case["kind"], case["choice"]
        spec = minimal_spec(kind, choice)
        labels = ["categorical=" + kind]
        objs, exc = F.build_case({"spec": spec, "id_seed": 17})
        if objs is None:
            ctx.violation("allowed_choice_fails", case, "%s %s is an allowed choice but the model cannot be built: %s: "
                          "%s" % (kind, choice, type(exc).__name__, str(exc)[:200]),
                          {"kind": "allowed_choice_fails", "builder": kind, "exc": type(exc).__name__,
                           "choice": "/".join(str(x) for x in choice[:2]) if isinstance(choice, list) else str(choice)})
            ctx.case(case, True, labels + ["build_failed"], sample=case)
            return
        probs = rule_problems(spec, objs)
        d, compared = differential_problems(spec, objs, 18)
        probs += d
        for k, detail in probs[:1]:
            ctx.violation(k if k.startswith("differs") or k.startswith("plain") else "rule_violated", case, detail,
                          {"kind": "rule_violated" if "." in k else k, "what": k})
        ctx.case(case, True, labels, sample=case)
        return
    spec = case["spec"]
    labels = ["generated"]
    objs, exc = F.build_case(case)
    if objs is None:
        ctx.case(case, False, labels + ["invalid_initial"])
        return
    classes = {spec["objs"][n]["cls"] for n in S.spec_reachable(spec)}
    builder_classes = classes & {"VideoStreamingJob", "WebApplicationJob", "GenAIJob", "GenAIModel",
                                 "BoaviztaCloudServer", "VideoStreaming", "WebApplication"}
    labels += ["has=" + c for c in sorted(builder_classes)]
    probs = rule_problems(spec, objs)
    d, compared = differential_problems(spec, objs, case["id_seed"] + 1)
    probs += d
    if compared:
        labels.append("differential_checked")
    mixed = False
    for srv in F.spec_components(spec)["servers"]:
        js = [spec["objs"][j]["cls"] for j in F.jobs_of_server(spec, srv)]
        if "Job" in js and any(c != "Job" for c in js):
            mixed = True
    # refresh: edit builder inputs on the live model, one after the other
    cur = spec
    for e in (case.get("edits") or ([case["edit"]] if case.get("edit") else [])):
        if probs:
            break
        after = E.apply_spec(cur, e)
        try:
            E.apply_live(objs, e, cur)
        except Exception as ex:
            fresh, fexc = F.build_case({"spec": after, "id_seed": 5})
            if fresh is not None:
                probs.append(("refresh_edit_raises", "editing %s raised %s: %s although the target model is valid" % (
                    E.describe(e), type(ex).__name__, str(ex)[:200])))
            labels.append("edit_target_invalid")
            break
        cur = after
        labels.append("refresh_checked")
        rp = rule_problems(cur, objs)
        probs += [("not_refreshed:" + k, "after editing %s: %s" % (E.describe(e), dsc)) for k, dsc in rp]
        fresh, fexc = F.build_case({"spec": cur, "id_seed": case["id_seed"] + 2})
        if fresh is not None and not rp:
            dd = snap.compare(snap.snapshot(S.reachable(objs)), snap.snapshot(S.reachable(fresh)))
            if dd:
                probs.append(("not_refreshed:model", "after editing %s, %d value(s) differ from a fresh build; "
                                                     "first %s %s" % (E.describe(e), len(dd), dd[0][0], dd[0][1])))
    for k, detail in probs[:1]:
        kind = "rule_violated" if "." in k and not k.startswith("not_refreshed") else k.split(":")[0]
        ctx.violation(kind, case, detail, {"kind": kind, "what": k})
    ctx.case(case, bool(builder_classes) and (mixed or len(builder_classes) >= 1), labels + (["mixed_server"] if mixed
                                                                                            else []),
             sample={"builder_classes": sorted(builder_classes), "edits": case.get("edits")})


def replay(case, ctx):
    check(case, ctx)


def run_shard(ctx):
    uni = categorical_universe()
    shard = max(ctx.shard, 0)
    if ctx.budget.get("enumerate"):
        mine = [c for i, c in enumerate(uni) if i % runner.NSHARDS == shard % runner.NSHARDS]
        ctx.extra["categorical_values_total"] = len(uni) if shard == 0 else 0
    else:
        k = ctx.budget.get("sample_categorical", 4)
        import random
        rnd = random.Random(ctx.seed)         # seeded by VERIF_SEED and the shard: a pure function of the seed
        mine = [c for c in uni if c[0] in ("video", "web")][shard::runner.NSHARDS] + rnd.sample(uni, k)
    for kind, choice in mine:
        if ctx.expired():
            break
        check({"mode": "categorical", "kind": kind, "choice": choice}, ctx)
    runner.run_given(ctx, cases(), lambda c: check(c, ctx), ctx.budget["examples"])
