"""C10 — Results do not depend on the units inputs are expressed in."""
import copy

from hypothesis import strategies as st

from pbt.common import env, runner, snap, fresh as F, spec as S, gen as G, edits as E, machine as M

env.import_efootprint()

from efootprint.constants.units import u  # noqa: E402

ID = "C10"
TECHNIQUE = "property-based testing (Hypothesis), metamorphic relation: re-expressing inputs in another unit of the same dimension leaves every calculated value physically unchanged"
LEVEL_TEXT = ("generated systems; every quantity-valued input re-expressed (one at a time and all at once) in another unit "
              "of its family, including exact-hour durations at the ceil/floor sites; all calculated attributes of the "
              "two fresh builds compared; the same re-expression applied to the live model (singly or in one update next "
              "to a real change) compared with a fresh build")
LEVEL_NOTE = "trusts pint to convert the harness' re-expressed magnitudes (same library as the code under test)"
RULE = ("Hypothesis draws a system spec, a mode (one input | all inputs) and for each chosen quantity input another unit "
        "of its family (B/kB/MB/GB/TB; ms/s/min/h/day/year; mW/W/kW; g/kg/t; g/kWh,kg/kWh,kg/MWh; kWh/GB,Wh/MB; W/TB,"
        "kW/PB; kg/TB,g/GB; h/day vs dimensionless; dimensionless vs percent; per-gpu variants). Oracle: "
        "snapshot(build(spec)) == snapshot(build(spec')) for all calculated attributes (rtol 1e-9). In 40% of the cases "
        "the re-expression is also applied to the live model (one assignment per input, or one grouped update, possibly "
        "with a real change of another input at a drawn position) and compared with a fresh build. Non-trivial = at "
        "least one input re-expressed with a non-power-of-ten factor or a duration that is an exact number of hours.")
ASSUMPTIONS = ["magnitudes are re-expressed with pint itself; the relative error of that conversion (~1e-16) is far "
               "below the comparison tolerance, except exactly at hour boundaries, which is what the check probes"]
BUDGET = {"quick": dict(examples=40, wall_guard_s=600), "thorough": dict(examples=350, wall_guard_s=3000)}

FAMILIES = [["B", "kB", "MB", "GB", "TB"], ["ms", "s", "min", "hour", "day", "year"], ["mW", "W", "kW"],
            ["g", "kg", "tonne"], ["g/kWh", "kg/kWh", "kg/MWh"], ["kWh/GB", "Wh/MB", "kWh/TB"],
            ["W/TB", "kW/PB", "mW/GB"], ["kg/TB", "g/GB"], ["hour/day", "dimensionless", "min/hour"],
            ["W/gpu", "kW/gpu"], ["GB/gpu", "MB/gpu"], ["kg/gpu", "g/gpu"], ["1/s", "1/min"],
            ["cpu_core*s/GB", "cpu_core*s/MB"], ["dimensionless", "percent"]]
_FAM_CACHE = {}


def family_of(unit, attr):
    key = (unit, attr)
    if key not in _FAM_CACHE:
        uu = u(unit).units
        out = None
        for fam in FAMILIES:
            if any(u(x).units == uu for x in fam):
                out = fam
                break
        if uu == u("dimensionless").units:
            out = FAMILIES[-1]
        _FAM_CACHE[key] = out
    return _FAM_CACHE[key]


def all_inputs(spec):
    out = []
    for n in G.live_names(spec):
        e = spec["objs"][n]
        for a in S.quantity_inputs(e["cls"]):
            val = e.get(a) or S.default_quantity(e["cls"], a)
            out.append((n, a, val))
        if e.get("fixed_nb_of_instances") is not None:
            out.append((n, "fixed_nb_of_instances", e["fixed_nb_of_instances"]))
    return out


@st.composite
def cases(draw):
    spec = draw(G.specs())
    ins = all_inputs(spec)
    mode = draw(st.sampled_from(["one", "one", "some", "all"]))
    if mode == "one":
        idx = [draw(st.integers(0, len(ins) - 1))]
    elif mode == "some":
        idx = sorted(set(draw(st.lists(st.integers(0, len(ins) - 1), min_size=2, max_size=8))))
    else:
        idx = list(range(len(ins)))
    changes = []
    for i in idx:
        n, a, val = ins[i]
        fam = family_of(val[1], a)
        if not fam:
            continue
        alts = [x for x in fam if u(x).units != u(val[1]).units]
        if a == "fixed_nb_of_instances":
            alts = []
        if alts:
            changes.append([n, a, draw(st.sampled_from(alts))])
    live = None
    if changes and draw(st.floats(0, 1)) < 0.4:
        # the same re-expression applied to the live model: one by one or in one grouped update, possibly together
        # with a real change of another input
        real = draw(G.quantity_edit(spec)) if draw(st.booleans()) else None
        if real is not None and any(real["obj"] == n and real["attr"] == a for n, a, _ in changes):
            real = None
        live = {"grouped": draw(st.floats(0, 1)) < 0.7, "real": real, "real_pos": draw(st.integers(0, len(changes)))}
    return {"spec": spec, "id_seed": draw(st.integers(0, 2 ** 20)), "mode": mode, "reexpress": changes, "live": live}


def check(case, ctx):
    spec = case["spec"]
    labels = ["mode=" + case["mode"]]
    spec2 = copy.deepcopy(spec)
    nontrivial = False
    for n, a, new_unit in case["reexpress"]:
        e = spec2["objs"][n]
        val = e.get(a) or S.default_quantity(e["cls"], a)
        q = (val[0] * u(val[1])).to(u(new_unit))
        e[a] = [float(q.magnitude), new_unit]
        factor = float((1 * u(val[1])).to(u(new_unit)).magnitude)
        import math
        lg = math.log10(factor) if factor > 0 else 0.5
        if abs(lg - round(lg)) > 1e-9:
            nontrivial = True
        if u(val[1]).dimensionality == u.hour.dimensionality:
            hrs = (val[0] * u(val[1])).to(u.hour).magnitude
            if hrs > 0 and abs(hrs - round(hrs)) < 1e-9:
                nontrivial = True
                labels.append("exact_hour_duration_reexpressed")
        labels.append("to=" + new_unit)
    if not case["reexpress"]:
        ctx.case(case, False, labels + ["nothing_to_reexpress"])
        return
    a_objs, exc_a = F.build_case({"spec": spec, "id_seed": case["id_seed"]})
    b_objs, exc_b = F.build_case({"spec": spec2, "id_seed": case["id_seed"]})
    if a_objs is None and b_objs is None:
        ctx.case(case, False, labels + ["invalid_initial"])
        return
    if (a_objs is None) != (b_objs is None):
        ex = exc_a or exc_b
        ctx.violation("unit_dependent_acceptance", case,
                      "the model is %s in the original units and %s after re-expressing %s: %s: %s" % (
                          "rejected" if a_objs is None else "accepted", "rejected" if b_objs is None else "accepted",
                          case["reexpress"][:4], type(ex).__name__, str(ex)[:300]),
                      {"kind": "unit_dependent_acceptance"})
        ctx.case(case, nontrivial, labels)
        return
    sa = snap.snapshot(S.reachable(a_objs))
    sb = snap.snapshot(S.reachable(b_objs))
    diffs = snap.compare(sa, sb)
    if diffs:
        culprit = case["reexpress"][0] if len(case["reexpress"]) == 1 else None
        sig = {"kind": "unit_dependent_result"}
        if culprit:
            sig["input"] = "%s.%s" % (spec["objs"][culprit[0]]["cls"], culprit[1])
            sig["to"] = culprit[2]
        ctx.violation("unit_dependent_result", case,
                      "re-expressing %s changes %d calculated attribute(s); first: %s %s" % (
                          case["reexpress"][:4], len(diffs), diffs[0][0], diffs[0][1]), sig)
    if case.get("live") and not diffs:
        live_reexpression(case, ctx, spec, spec2, a_objs, labels)
    ctx.case(case, nontrivial, labels, sample={"reexpress": case["reexpress"][:6], "mode": case["mode"]})


def live_reexpression(case, ctx, spec, spec2, objs, labels):
    """Re-express the inputs of the live model (and possibly change one other input): same as a fresh build."""
    lv = case["live"]
    edits = [dict(op="q", obj=n, attr=a, val=list(spec2["objs"][n][a])) for n, a, _ in case["reexpress"]]
    if lv["real"] is not None:
        edits.insert(min(lv["real_pos"], len(edits)), lv["real"])
    target = spec
    for e in edits:
        target = E.apply_spec(target, e)
    fresh, exc = F.build_case({"spec": target, "id_seed": case["id_seed"] + 1})
    if fresh is None:
        labels.append("live_target_invalid")
        return
    labels.append("live_grouped" if lv["grouped"] else "live_one_by_one")
    if lv["real"] is not None:
        labels.append("live_with_real_change")
    try:
        with M.watchdog():
            cur = spec
            if lv["grouped"] and len(edits) > 1:
                E.apply_live(objs, dict(op="group", edits=edits), cur)
            else:
                for e in edits:
                    E.apply_live(objs, e, cur)
                    cur = E.apply_spec(cur, e)
    except Exception as ex:
        ctx.violation("unit_dependent_acceptance", case,
                      "re-expressing %s%s on the live model (%s) raised %s: %s although a system built with these "
                      "values is valid" % (case["reexpress"][:4], " and changing %s.%s" % (
                          lv["real"]["obj"], lv["real"]["attr"]) if lv["real"] else "",
                          "one update" if lv["grouped"] else "one by one", type(ex).__name__, str(ex)[:200]),
                      {"kind": "unit_dependent_acceptance", "site": "live"})
        return
    d = snap.compare(snap.snapshot(S.reachable(objs)), snap.snapshot(S.reachable(fresh)))
    if d:
        ctx.violation("unit_dependent_result", case,
                      "after re-expressing %s%s on the live model (%s) %d calculated attribute(s) differ from a fresh "
                      "build; first: %s %s" % (case["reexpress"][:4], " and changing %s.%s" % (
                          lv["real"]["obj"], lv["real"]["attr"]) if lv["real"] else "",
                          "one update" if lv["grouped"] else "one by one", len(d), d[0][0], d[0][1]),
                      {"kind": "unit_dependent_result", "site": "live"})


def replay(case, ctx):
    check(case, ctx)


def minimise(violation, budget, ctx_factory):
    """ddmin on the list of re-expressed inputs."""
    case = violation["case"]
    want = violation["signature"]["kind"]
    best = [violation]

    def fails(sub):
        ctx = ctx_factory()
        ctx.known = []
        check(dict(case, reexpress=sub, mode="min"), ctx)
        for b in ctx.violations.values():
            if b["signature"]["kind"] == want:
                best[0] = b["cases"][0]
                return True
        return False

    runner.ddmin(case["reexpress"], fails, budget)
    return best[0]


def run_shard(ctx):
    runner.run_given(ctx, cases(), lambda c: check(c, ctx), ctx.budget["examples"])
