"""C02 — System footprint accounts for every component exactly once."""
import math

from hypothesis import strategies as st

from pbt.common import env, runner, snap, fresh as F, spec as S, gen as G, machine as M

env.import_efootprint()

ID = "C02"
TECHNIQUE = "property-based testing (Hypothesis) with invariants over an independently derived component set (from the spec, not from system.servers)"
LEVEL_TEXT = ("generated systems over all sharing topologies, time zones and windows; total, per-category, per-object and "
              "summed views recomputed by the harness from the per-object series and compared hour by hour")
LEVEL_NOTE = "trusts the spec->component-set derivation of the harness and numpy summation"
RULE = ("Hypothesis draws a system spec (sharing none/infra_only/jobs_too, builders, 1-3 usage patterns in any of 24 "
        "zones), in 30% of the cases followed by 1-3 edits. Oracle on the (possibly edited) model: total_footprint(h) = sum over spec-derived servers, storages (energy+"
        "fabrication), networks (energy) and usage patterns (energy+fabrication) within the 4-decimal rounding; "
        "energy_footprints / fabrication_footprints hold exactly one entry per spec-derived component; category totals "
        "and *_sum_over_period views equal the sums of the per-object series; all values finite, >= 0 when no job "
        "deletes data; energy footprint = energy x applicable carbon intensity (server, storage via its server, "
        "pattern via its country, network per pattern). Non-trivial = a component shared by >=2 usage patterns or >=2 "
        "patterns in different zones; distinct by spec hash.")
ASSUMPTIONS = ["small systems (<=3 servers, <=5 jobs, <=3 usage patterns, <=200 hours)",
               "total_footprint compared with 1.01e-4 kg absolute tolerance (it is rounded to 4 decimals)"]
BUDGET = {"quick": dict(examples=40, wall_guard_s=600), "thorough": dict(examples=700, wall_guard_s=3000)}
CATS = ("Servers", "Storage", "Network", "Devices")


@st.composite
def cases(draw):
    spec = draw(G.specs())
    hist = draw(G.histories(spec, min_steps=1, max_steps=3)) if draw(st.floats(0, 1)) < 0.3 else []
    return {"spec": spec, "id_seed": draw(st.integers(0, 2 ** 20)), "history": hist}


def check(case, ctx):
    spec = case["spec"]
    labels = ["sharing=" + spec.get("sharing", "?")]
    if case.get("history"):
        # the accounting identities must also hold on a model reached through edits
        quiet = type("Q", (), {"violation": lambda self, *a, **k: False})()
        summary = M.run_history(case, quiet, compare_fresh=False, check_totals=False, check_undo=False)
        objs = summary.get("live")
        if objs is None:
            ctx.case(case, False, labels + ["history_" + summary["status"]])
            return
        spec = summary["final_spec"]
        labels.append("after_history")
    else:
        objs, exc = F.build_case(case)
        if objs is None:
            ctx.case(case, False, labels + ["invalid_initial"])
            return
    system = objs["system"]
    comp = F.spec_components(spec)
    problems = []
    c = snap.canon
    name_by_id = {o.id: n for n, o in objs.items()}
    expected = {"Servers": comp["servers"], "Storage": comp["storages"], "Network": comp["networks"],
                "Devices": comp["ups"]}
    ef, ff = system.energy_footprints, system.fabrication_footprints
    # exactly one entry per component
    for cat in CATS:
        got = sorted(name_by_id.get(k, k) for k in ef[cat])
        if got != sorted(expected[cat]) or len(ef[cat]) != len(expected[cat]):
            problems.append("energy_footprints[%s] lists %s, components are %s" % (cat, got, sorted(expected[cat])))
        exp_f = ["networks"] if cat == "Network" else expected[cat]
        got = sorted(name_by_id.get(k, k) for k in ff[cat])
        if got != sorted(exp_f):
            problems.append("fabrication_footprints[%s] lists %s, components are %s" % (cat, got, sorted(exp_f)))
    # the library's own object collections must be duplicate free
    for coll, names in (("servers", comp["servers"]), ("storages", comp["storages"]), ("networks", comp["networks"])):
        got = sorted(S.key_of(o) for o in getattr(system, coll))
        if got != sorted(names):
            problems.append("system.%s is %s, components are %s" % (coll, got, sorted(names)))
    # hourly total
    total = {}
    per_cat_e = {k: {} for k in CATS}
    per_cat_f = {k: {} for k in CATS}
    attr_pairs = {"Servers": ("energy_footprint", "instances_fabrication_footprint"),
                  "Storage": ("energy_footprint", "instances_fabrication_footprint"),
                  "Network": ("energy_footprint", None),
                  "Devices": ("energy_footprint", "instances_fabrication_footprint")}
    any_negative_store = any(e["cls"] in S.JOB_CLS and e.get("data_stored", [1])[0] < 0 for e in spec["objs"].values())
    for cat in CATS:
        for n in expected[cat]:
            ea, fa = attr_pairs[cat]
            e_map = F.series(c(getattr(objs[n], ea)))
            F.add_into(total, e_map)
            F.add_into(per_cat_e[cat], e_map)
            if fa:
                f_map = F.series(c(getattr(objs[n], fa)))
                F.add_into(total, f_map)
                F.add_into(per_cat_f[cat], f_map)
            else:
                f_map = {}
            for m, what in ((e_map, ea), (f_map, fa)):
                for v in m.values():
                    if not math.isfinite(v):
                        problems.append("%s.%s has a non-finite value" % (n, what))
                        break
                    if v < -1e-12 and not any_negative_store:
                        problems.append("%s.%s is negative (%r) although no job deletes data" % (n, what, v))
                        break
    why = F.maps_close(F.series(c(system.total_footprint)), total, rtol=1e-9, atol=snap.TOTAL_ATOL)
    if why:
        problems.append("total_footprint differs from the sum of its components: " + why)
    te, tf = system.total_energy_footprints, system.total_fabrication_footprints
    for cat in CATS:
        why = F.maps_close(F.series(c(te[cat])), per_cat_e[cat])
        if why:
            problems.append("total_energy_footprints[%s] != sum of objects: %s" % (cat, why))
        why = F.maps_close(F.series(c(tf[cat])), per_cat_f[cat])
        if why:
            problems.append("total_fabrication_footprints[%s] != sum of objects: %s" % (cat, why))
    # summed-over-period views
    es, fs = system.energy_footprint_sum_over_period, system.fabrication_footprint_sum_over_period
    tes, tfs = system.total_energy_footprint_sum_over_period, system.total_fabrication_footprint_sum_over_period
    grand = 0.0
    for cat in CATS:
        ea, fa = attr_pairs[cat]
        s_e = s_f = 0.0
        for n in expected[cat]:
            x = sum(F.series(c(getattr(objs[n], ea))).values())
            s_e += x
            got = snap.total(c(es[cat][objs[n].id])) if objs[n].id in es[cat] else None
            if got is None or abs(got - x) > 1e-9 * max(abs(x), 1e-12):
                problems.append("energy_footprint_sum_over_period[%s][%s] = %r, series sums to %r" % (cat, n, got, x))
            if fa:
                y = sum(F.series(c(getattr(objs[n], fa))).values())
                s_f += y
                got = snap.total(c(fs[cat][objs[n].id])) if objs[n].id in fs[cat] else None
                if got is None or abs(got - y) > 1e-9 * max(abs(y), 1e-12):
                    problems.append("fabrication_footprint_sum_over_period[%s][%s] = %r, series sums to %r" % (
                        cat, n, got, y))
        for d, x, nm in ((tes, s_e, "energy"), (tfs, s_f, "fabrication")):
            got = snap.total(c(d[cat]))
            if abs(got - x) > 1e-9 * max(abs(x), 1e-12) + 1e-15:
                problems.append("total_%s_footprint_sum_over_period[%s] = %r, objects sum to %r" % (nm, cat, got, x))
        grand += s_e + s_f
    tot_series = F.series(c(system.total_footprint))
    n_hours = max(len(tot_series), 1)
    if abs(sum(tot_series.values()) - grand) > 1e-9 * max(abs(grand), 1e-12) + n_hours * 5.1e-5:
        problems.append("sum over period of total_footprint %r differs from the sum of all category sums %r" % (
            sum(tot_series.values()), grand))
    # energy = energy x intensity
    for n in comp["servers"]:
        aci = F.attr_q(spec, n, "average_carbon_intensity")
        exp = {k: v * aci for k, v in F.series(c(objs[n].instances_energy)).items()}
        why = F.maps_close(F.series(c(objs[n].energy_footprint)), exp)
        if why:
            problems.append("server %s energy footprint != energy x its carbon intensity: %s" % (n, why))
        stn = spec["objs"][n]["storage"]
        exp = {k: v * aci for k, v in F.series(c(objs[stn].instances_energy)).items()}
        why = F.maps_close(F.series(c(objs[stn].energy_footprint)), exp)
        if why:
            problems.append("storage %s energy footprint != energy x its server's carbon intensity: %s" % (stn, why))
    for up in comp["ups"]:
        aci = F.attr_q(spec, spec["objs"][up]["country"], "average_carbon_intensity")
        exp = {k: v * aci for k, v in F.series(c(objs[up].devices_energy)).items()}
        why = F.maps_close(F.series(c(objs[up].energy_footprint)), exp)
        if why:
            problems.append("usage pattern %s energy footprint != devices energy x country intensity: %s" % (up, why))
    for net in comp["networks"]:
        bei = F.attr_q(spec, net, "bandwidth_energy_intensity")
        exp = {}
        for up in comp["ups"]:
            if spec["objs"][up]["network"] != net:
                continue
            aci = F.attr_q(spec, spec["objs"][up]["country"], "average_carbon_intensity")
            for j in sorted(set(S.journey_jobs(spec, spec["objs"][up]["usage_journey"]))):
                d = objs[j].hourly_data_transferred_per_usage_pattern
                entry = [v for k, v in d.items() if S.key_of(k) == up]
                if entry:
                    F.add_into(exp, F.series(c(entry[0])), bei * aci)
        why = F.maps_close(F.series(c(objs[net].energy_footprint)), exp)
        if why:
            problems.append("network %s energy footprint != sum over patterns of data x intensity x country "
                            "intensity: %s" % (net, why))
    if problems:
        ctx.violation("accounting", case, "; ".join(problems[:4]),
                      {"kind": "accounting", "what": problems[0].split(" ")[0]})
    sl = F.sharing_labels(spec)
    nontrivial = any(x in sl for x in ("shared_network", "shared_country", "shared_journey", "shared_job",
                                       "shared_server", "multi_zone"))
    ctx.case(case, nontrivial, labels + sl,
             sample={"objects": {n: e["cls"] for n, e in spec["objs"].items()}, "system": spec["system"]})


def replay(case, ctx):
    check(case, ctx)


def run_shard(ctx):
    runner.run_given(ctx, cases(), lambda c: check(c, ctx), ctx.budget["examples"])
