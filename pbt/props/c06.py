"""C06 — A what-if simulation computes what really making the change would."""
import copy

import numpy as np
from hypothesis import strategies as st

from pbt.common import env, runner, snap, fresh as F, spec as S, gen as G, edits as E, machine as M
from pbt.props import c05

env.import_efootprint()

from efootprint.abstract_modeling_classes.modeling_update import ModelingUpdate  # noqa: E402
from efootprint.abstract_modeling_classes.explainable_objects import ExplainableHourlyQuantities  # noqa: E402

ID = "C06"
TECHNIQUE = "property-based testing (Hypothesis), differential: simulated values at the first modelled hour vs the same changes really applied to a clone (and vs a fresh build of the target inputs); invariants on dates, twins and rejection"
LEVEL_TEXT = ("generated systems and valid change lists (numeric, hourly, time zone, choice, link, list, mixtures); "
              "simulation dated at the first hour compared value by value with a clone on which the changes are really "
              "applied and, with the simulation switched on, over the whole model; optionally after another simulation on the "
              "same model; for dates at which every pattern is still active no simulated hour precedes the date; twins "
              "paired both ways; naive / outside dates rejected")
LEVEL_NOTE = "the clone shares the library's update machinery (C01 checks that machinery against fresh builds); a second comparison with a fresh build of the target inputs is reported under its own kind"
RULE = ("Hypothesis draws a system spec, 1-3 valid simple edits on distinct attributes and a date kind. first: after "
        "set_updated_values() every recomputed value (joined by object name, attribute) must equal the value on a clone "
        "(build(spec) + the same changes in one ModelingUpdate) and the value of build(spec_after), rtol 1e-9, and with the "
        "simulation switched on every calculated value of the model must equal the one of these references. interior/"
        "last with all patterns still active: every hourly recomputed value starts at or after the date. Always: "
        "len(values_to_recompute) == len(recomputed_values), twins linked both ways on the same attribute. before/after/"
        "naive: an exception is required and (C05) nothing changes. In 40% of the cases another simulation was created "
        "(and possibly switched on and off) on the same model before. Non-trivial = >=1 hourly value recomputed and "
        "(interior date or >=2 time zones).")
ASSUMPTIONS = ["change lists whose target model is invalid (fresh build raises) are skipped here (C05/C15 territory)"]
BUDGET = {"quick": dict(examples=14, wall_guard_s=600), "thorough": dict(examples=220, wall_guard_s=3600)}
DATE_KINDS = ["first", "first", "first", "interior", "interior", "last", "before", "after", "naive"]


@st.composite
def cases(draw):
    spec = draw(G.specs(max_len=36, long_prob=0.05))
    ch, _ = draw(c05.sim_changes(spec, allow_bad=False))
    prior = None
    if draw(st.floats(0, 1)) < 0.4:
        # another what-if was explored on the same model before (and left, or switched on and off again)
        pch, _ = draw(c05.sim_changes(spec, allow_bad=False))
        prior = {"changes": pch, "date_kind": draw(st.sampled_from(["first", "interior"])),
                 "toggled": draw(st.booleans())}
    return {"spec": spec, "id_seed": draw(st.integers(0, 2 ** 20)), "changes": ch,
            "date_kind": draw(st.sampled_from(DATE_KINDS)), "k": draw(st.integers(1, 30)), "prior": prior}


def check(case, ctx):
    spec = case["spec"]
    labels = ["date=" + case["date_kind"]] + ["change=" + e["op"] for e in case["changes"]]
    after = spec
    try:
        for e in case["changes"]:
            after = E.apply_spec(after, e)
    except E.Inapplicable:
        ctx.case(case, False, labels + ["inapplicable"])
        return
    objs, exc = F.build_case(case)
    if objs is None:
        ctx.case(case, False, labels + ["invalid_initial"])
        return
    target, exc = F.build_case({"spec": after, "id_seed": case["id_seed"] + 7})
    if target is None:
        ctx.case(case, False, labels + ["invalid_target"])
        return
    lo, hi = c05.period(objs, spec)
    if lo is None:
        ctx.case(case, False, labels + ["no_usage"])
        return
    kind = case["date_kind"]
    if kind in ("before", "after"):
        flo, fhi = c05.full_period(objs)
        lo, hi = (flo if flo is not None else lo), (fhi if fhi is not None else hi)
    date = c05.sim_date(case["date_kind"], case["k"], lo, hi)
    kinds = {E.kind(spec, e) for e in case["changes"]}
    trigger = "hourly_input_changed" if "UsagePattern.hourly_usage_journey_starts" in kinds else (
        "timezone_changed" if kinds & {"Country.timezone", "UsagePattern.country"} else "none")
    sig = {"trigger": trigger}
    fail = lambda k_, detail, extra=None: ctx.violation(k_, case, detail, dict(sig, kind=k_, **(extra or {})))
    if case.get("prior"):
        pr = case["prior"]
        try:
            with M.watchdog():
                pmu = ModelingUpdate(E.changes_for_simulation(objs, pr["changes"]),
                                     c05.sim_date(pr["date_kind"], case["k"], lo, hi))
                if pr["toggled"]:
                    pmu.set_updated_values()
                    pmu.reset_values()
            labels.append("prior_simulation" + ("_toggled" if pr["toggled"] else ""))
        except Exception:
            labels.append("prior_simulation_refused")
    try:
        with M.watchdog():
            mu = ModelingUpdate(E.changes_for_simulation(objs, case["changes"]), date)
        raised = None
    except M.Hang as ex:
        fail("simulation_hang", str(ex))
        ctx.case(case, True, labels)
        return
    except Exception as ex:
        mu, raised = None, ex
    if kind in ("before", "after", "naive"):
        if raised is None:
            if not mu.values_to_recompute and not mu.changes_list:
                labels.append("noop_simulation")   # every change was a no-op: nothing to date
            else:
                fail("outside_date_accepted", "a simulation dated %s (%s the modelled period %s..%s) was accepted" % (
                    date, kind, np.datetime64(lo, "ns"), np.datetime64(hi, "ns")))
        ctx.case(case, False, labels + ["rejected" if raised else "accepted"])
        return
    if raised is not None:
        # The property promises values for a first-hour simulation and rejection of outside/naive dates; it does not
        # promise that every inside date is accepted for every change list (the library derives its own notion of the
        # period from the values the change affects). A clean ValueError is therefore only counted; a crash of another
        # type on a first-hour simulation is reported.
        if kind == "first" and not isinstance(raised, (ValueError, PermissionError)):
            fail("first_hour_simulation_crash", "simulation of %s dated at the first modelled hour %s raised %s: %s" % (
                [E.describe(e) for e in case["changes"]], date, type(raised).__name__, str(raised)[:300]),
                {"exc": type(raised).__name__})
        ctx.case(case, False, labels + ["inside_date_rejected=" + type(raised).__name__])
        return
    # pairing
    vr, rv = mu.values_to_recompute, mu.recomputed_values
    if len(vr) != len(rv):
        fail("pairing", "%d values to recompute but %d recomputed values" % (len(vr), len(rv)))
    mu.set_updated_values()
    try:
        bad_pairs = []
        for v, r in zip(vr, rv):
            if getattr(v, "simulation_twin", None) is not r or getattr(r, "baseline_twin", None) is not v:
                bad_pairs.append("twin link broken for %s" % getattr(r, "label", "?"))
            elif r.modeling_obj_container is None or r.attr_name_in_mod_obj_container is None:
                bad_pairs.append("recomputed value %s is not held by the model when switched on" % r.label)
        if bad_pairs:
            fail("pairing", "; ".join(bad_pairs[:3]))
        nontrivial = False
        hourly = [r for r in rv if isinstance(r, ExplainableHourlyQuantities)]
        zones = {spec["objs"][spec["objs"][u_]["country"]]["timezone"] for u_ in spec["system"]}
        if hourly and (kind == "interior" or len(zones) >= 2):
            nontrivial = True
        if kind == "first":
            clone, exc = F.build_case({"spec": spec, "id_seed": case["id_seed"] + 3})
            really = None
            try:
                ModelingUpdate(E.changes_for_simulation(clone, case["changes"]))
                really = clone
            except Exception as ex:
                labels.append("real_application_raised")
            for ref, ref_name in ((really, "the same changes really applied"), (target, "a fresh build of the inputs")):
                if ref is None:
                    continue
                ref_reach = S.reachable(ref)
                problems = []
                for r in rv:
                    cont = r.modeling_obj_container
                    if cont is None:
                        continue
                    n, a = S.key_of(cont), r.attr_name_in_mod_obj_container
                    if n not in ref_reach:
                        continue
                    got = snap.canon(getattr(cont, a))
                    exp = snap.canon(getattr(ref_reach[n], a))
                    ok, why = snap.close(got, exp, atol=snap.atol_for((n, a)))
                    if not ok:
                        problems.append("%s.%s: %s" % (n, a, why))
                if problems:
                    fail("simulation_differs_from_real_change" if ref is really else
                         "simulation_differs_from_fresh_build",
                         "simulating %s at the first hour: %d recomputed value(s) differ from %s; first %s" % (
                             [E.describe(e) for e in case["changes"]], len(problems), ref_name, problems[0]),
                         {"attr": problems[0].split(":")[0].split(".")[-1]})
                    break
                # and the other way round: with the simulation switched on, *every* calculated value of the model is the
                # one of the reference (a simulation that recomputes too little - or nothing - is caught here)
                try:
                    sim_snap = snap.snapshot(S.reachable(objs))
                except Exception as ex:
                    fail("simulated_model_unreadable", "with the simulation switched on the model cannot be read: "
                         "%s: %s" % (type(ex).__name__, str(ex)[:200]))
                    break
                ref_snap = snap.snapshot(ref_reach)
                d = snap.compare(sim_snap, ref_snap, keys=sorted(set(sim_snap) & set(ref_snap)))
                if d:
                    fail("simulation_differs_from_real_change" if ref is really else
                         "simulation_differs_from_fresh_build",
                         "simulating %s at the first hour: with the simulation switched on %d calculated value(s) "
                         "of the model differ from %s (%d value(s) were recomputed); first %s %s" % (
                             [E.describe(e) for e in case["changes"]], len(d), ref_name, len(rv), d[0][0], d[0][1]),
                         {"attr": d[0][0][1], "how": "not_recomputed"})
                    break
            labels.append("first_hour_equivalence_checked")
        else:
            # every usage pattern still active at the date?
            last_starts = []
            for u_ in spec["system"]:
                c = snap.canon(objs[u_].utc_hourly_usage_journey_starts)
                if c is not None:
                    last_starts.append(int(c["t"][-1]))
            date_ns = int(np.datetime64(date.replace(tzinfo=None), "ns").astype("int64"))
            if last_starts and date_ns <= min(last_starts):
                for r in hourly:
                    c = snap.canon(r)
                    if c is not None and len(c["t"]) and int(c["t"][0]) < date_ns and c.get("aware"):
                        fail("hours_before_simulation_date",
                             "simulated %s.%s starts at %s, before the simulation date %s" % (
                                 r.modeling_obj_container.name, r.attr_name_in_mod_obj_container,
                                 np.datetime64(int(c["t"][0]), "ns"), date),
                             {"attr": r.attr_name_in_mod_obj_container})
                        break
                labels.append("no_hour_before_date_checked")
    finally:
        mu.reset_values()
    ctx.case(case, nontrivial, labels, sample={"changes": [E.describe(e) for e in case["changes"]],
                                              "date": case["date_kind"], "k": case["k"]})


def replay(case, ctx):
    check(case, ctx)


def run_shard(ctx):
    runner.run_given(ctx, cases(), lambda c: check(c, ctx), ctx.budget["examples"])
