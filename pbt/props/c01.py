"""C01 — Incremental recomputation equals recomputation from scratch."""
from hypothesis import strategies as st

from pbt.common import gen as G, machine as M, runner

ID = "C01"
TECHNIQUE = "model-based property testing (Hypothesis): histories of edits generated against a plain-data spec model and executed on the live system; differential oracle after every step = a system freshly built from the same final inputs; ddmin minimisation of the history"
LEVEL_TEXT = ("generated systems over all sharing topologies and builder classes, histories of 1-10 edits of every kind "
              "(single and grouped, list mutators, add/remove usage pattern, undo); after every accepted edit every "
              "calculated attribute of every reachable object is compared hour by hour with a fresh build; undo steps "
              "with the state before; reported previous/initial totals with totals read before the edit / at creation")
LEVEL_NOTE = "the reference is the library itself on a fresh build (C02-C04, C11 check fresh builds against independent reference models); small systems only"
RULE = ("Hypothesis draws a system spec (sharing profile none/infra_only/jobs_too, optional builder classes, id seed) "
        "and a history of 1-8 edits drawn against the evolving spec (quantity, hourly series, time zone, choice, "
        "link, list assignment, list mutators, add/remove usage pattern, grouped updates, explicit undo). After every "
        "accepted edit the live model is compared attribute by attribute, hour by hour, with a system freshly built "
        "from the same inputs (rtol 1e-9), undo steps with the snapshot before the undone edit, and the reported "
        "previous/initial totals with totals read before the edit / at creation. Non-trivial = history with >=1 "
        "accepted edit that changed >=1 calculated attribute; distinct by hash of (spec, history).")
ASSUMPTIONS = [
    "systems are small (<=3 servers, <=5 jobs, <=3+2 usage patterns, <=200 hours)",
    "caller preconditions honoured: removed usage patterns are self_delete()d, devices lists non-empty, "
    "hourly series replaced by same-length series, a storage belongs to one server",
    "equality up to rtol 1e-9 of the largest value of a series (float re-association), total_footprint +1e-4 kg",
]
BUDGET = {
    "quick": dict(examples=30, max_steps=6, minimise_budget=30, wall_guard_s=600),
    "thorough": dict(examples=180, max_steps=10, minimise_budget=150, wall_guard_s=4800),
}


@st.composite
def cases(draw, max_steps):
    spec = draw(G.specs(big=0.25 if max_steps > 8 else 0.0))
    hist = draw(G.histories(spec, min_steps=1, max_steps=max_steps))
    return {"spec": spec, "id_seed": draw(st.integers(0, 2 ** 20)), "history": hist}


def labels_of(case, summary):
    out = ["sharing=" + case["spec"].get("sharing", "?"), "status=" + summary["status"]]
    for e in case["history"][:summary["steps"]]:
        out.append("edit=" + e["op"] + (":" + e["method"] if e["op"] == "listop" else ""))
        if "undo_of" in e:
            out.append("edit=undo")
    out.extend(summary["labels"])
    if any(v["cls"] in ("GPUServer", "BoaviztaCloudServer") or v["cls"] in G.S.SERVICE_CLS
           for v in case["spec"]["objs"].values()):
        out.append("has_builder_class")
    return out


def replay(case, ctx):
    summary = M.run_history(case, ctx)
    ctx.case(case, summary["changed"] >= 1, labels_of(case, summary), sample=sample_of(case))
    return summary


def sample_of(case):
    return {"sharing": case["spec"].get("sharing"), "objects": {n: e["cls"] for n, e in case["spec"]["objs"].items()},
            "system": case["spec"]["system"], "history": case["history"]}


def run_shard(ctx):
    runner.run_given(ctx, cases(ctx.budget["max_steps"]), lambda c: replay(c, ctx), ctx.budget["examples"])


def minimise(violation, budget, ctx_factory):
    return M.minimise_history(violation, budget, ctx_factory, replay)
