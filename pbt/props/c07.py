"""C07 — Every computed value is reproduced by the formula it displays."""
from hypothesis import strategies as st

from pbt.common import env, runner, snap, fresh as F, spec as S, gen as G, edits as E, machine as M
from pbt.props import c09

env.import_efootprint()

from efootprint.abstract_modeling_classes.explainable_object_base_class import ExplainableObject  # noqa: E402
from efootprint.abstract_modeling_classes.explainable_objects import (  # noqa: E402
    EmptyExplainableObject, ExplainableQuantity, ExplainableHourlyQuantities)

ID = "C07"
TECHNIQUE = "property-based testing (Hypothesis): every node of every explanation tree of generated (optionally edited) systems is re-evaluated with the harness' own arithmetic on base-unit floats aligned by timestamp and compared with the displayed value; leaves are classified"
LEVEL_TEXT = ("generated systems including every builder class, fresh and after edit histories; for every calculated "
              "attribute (every dict entry): explain() works and returns text, label present; every recorded + - * / step "
              "re-evaluated on its recorded operands; every leaf is a labelled input held by the model with a source, an "
              "empty value, or a documented unit constant")
LEVEL_NOTE = "only the four arithmetic operators are re-evaluated; other recorded operations (ceil, max, shift, conversion to UTC, data look-ups) are checked by C03/C04/C09/C11/C17"
RULE = ("Hypothesis draws a system spec (builders in half of the cases) and optionally a history of 1-4 edits. For every "
        "calculated attribute of every reachable object: explain() returns a non-empty str, the value has a label; the "
        "explanation tree is walked through left/right parents down to values held by the model; each node whose "
        "operator is + - * / and has both operands is recomputed from the operands' current physical values (missing "
        "hours = 0 for + and *, empty = 0 for +/-, empty absorbing for *) and must equal the node's value and dimension "
        "(rtol 1e-9); a leaf held by the model must be an input (not a calculated attribute) and, unless empty, have a "
        "source; a leaf not held by the model must be empty or one of the unit constants (one hour, one full hour, the "
        "100 kB GenAI constant). Non-trivial = a tree with >=3 arithmetic nodes including an hourly operand.")
ASSUMPTIONS = ["unit constants such as 'one hour' are labelled but have no source: the 'with a source' clause is enforced "
               "on leaves held by the model",
               "an all-zero operand's dimension is not compared (zero-filled expiry series are dimensionless)"]
BUDGET = {"quick": dict(examples=24, wall_guard_s=600), "thorough": dict(examples=200, wall_guard_s=3600)}
CONSTANT_LABELS = {"one hour", "one full hour", "no value", "null value"}


@st.composite
def cases(draw):
    spec = draw(G.specs(builders=draw(st.booleans()), max_len=24, long_prob=0.0))
    hist = draw(G.histories(spec, min_steps=1, max_steps=4)) if draw(st.booleans()) else []
    return {"spec": spec, "id_seed": draw(st.integers(0, 2 ** 20)), "history": hist}


def is_zero(o):
    if o[0] == "scalar":
        return o[2] == 0
    if o[0] == "hourly":
        return all(x == 0 for x in o[2].values())
    return o[0] == "empty"


def held(x):
    return getattr(x, "modeling_obj_container", None) is not None


def check_tree(where, root, problems, stats, inputs_ok):
    seen = set()
    stack = [root]
    arith = 0
    has_hourly = False
    while stack:
        node = stack.pop()
        if id(node) in seen:
            continue
        seen.add(id(node))
        lp, rp, op = node.left_parent, node.right_parent, node.operator
        if lp is None and rp is None:
            if node is root:
                continue
            # a leaf
            if not node.label:
                problems.append(("leaf_without_label", "%s: a leaf of the explanation has no label (%s)" % (where, node)))
            if held(node):
                cont, attr = node.modeling_obj_container, node.attr_name_in_mod_obj_container
                if attr in cont.calculated_attributes and not isinstance(node, EmptyExplainableObject):
                    problems.append(("leaf_is_calculated", "%s: leaf %s.%s is a calculated attribute without "
                                                           "recorded parents" % (where, cont.name, attr)))
                elif attr not in cont.calculated_attributes and not isinstance(node, EmptyExplainableObject) \
                        and node.source is None:
                    problems.append(("leaf_without_source", "%s: input %s.%s has no source" % (
                        where, cont.name, attr)))
                stats["leaf_inputs"] = stats.get("leaf_inputs", 0) + 1
            else:
                if isinstance(node, EmptyExplainableObject):
                    pass
                elif node.label in CONSTANT_LABELS or (node.label or "").startswith("unnamed source"):
                    stats["leaf_constants"] = stats.get("leaf_constants", 0) + 1
                else:
                    problems.append(("leaf_not_a_model_input", "%s: leaf '%s' = %s is not held by the model and is "
                                                               "not a unit constant" % (where, node.label, node)))
            continue
        for p in (lp, rp):
            if p is not None and not (held(p) and p is not root):
                stack.append(p)
            elif p is not None and held(p):
                # a value held by the model: it is explained on its own; as a leaf it must be an input with a source
                cont, attr = p.modeling_obj_container, p.attr_name_in_mod_obj_container
                if not p.label:
                    problems.append(("leaf_without_label", "%s: operand %s.%s has no label" % (where, cont.name, attr)))
                if attr not in cont.calculated_attributes and id(p) not in seen:
                    seen.add(id(p))
                    stats["leaf_inputs"] = stats.get("leaf_inputs", 0) + 1
                    if not isinstance(p, EmptyExplainableObject) and getattr(p, "source", None) is None:
                        problems.append(("leaf_without_source", "%s: input %s.%s ('%s') has no source" % (
                            where, cont.name, attr, p.label)))
        if op in ("+", "-", "*", "/") and lp is not None and rp is not None:
            try:
                a, b, r = c09.observed(lp), c09.observed(rp), c09.observed(node)
            except AssertionError:
                continue
            if a[0] == "number" or b[0] == "number" or r[0] == "number":
                continue
            if "hourly" in (a[0], b[0]):
                has_hourly = True
            exp = c09.ref_binop(op, a, b)
            if exp in ("skip", "raise"):
                if exp == "raise" and op in "+-" and (is_zero(a) or is_zero(b)) and a[0] == b[0]:
                    # adding an all-zero operand of another dimension (zero-filled expiry series)
                    z, nz = (a, b) if is_zero(a) else (b, a)
                    exp = nz if (op == "+" or nz is a) else "skip"
                if exp in ("skip", "raise"):
                    stats["skipped_nodes"] = stats.get("skipped_nodes", 0) + 1
                    continue
            arith += 1
            why = c09.same(r, exp, scale=(c09.magnitude(a) + c09.magnitude(b)) if op in "+-" else None)
            if why and c09.RTOL < 1e-9:
                # same comparison with the model-level tolerance
                old = c09.RTOL
                c09.RTOL = 1e-9
                try:
                    why = c09.same(r, exp, scale=(c09.magnitude(a) + c09.magnitude(b)) if op in "+-" else None)
                finally:
                    c09.RTOL = old
            if why:
                problems.append(("formula_mismatch", "%s: step '%s %s %s' does not reproduce the displayed value: %s" % (
                    where, lp.label or "(%s)" % lp.operator, op, rp.label or "(%s)" % rp.operator, why)))
    stats["arith_nodes"] = stats.get("arith_nodes", 0) + arith
    return arith, has_hourly


def check(case, ctx):
    labels = []
    if case["history"]:
        quiet = type("Q", (), {"violation": lambda self, *a, **k: False})()
        summary = M.run_history(case, quiet, compare_fresh=False, check_totals=False, check_undo=False)
        if summary.get("live") is None:
            ctx.case(case, False, ["history_" + summary["status"]])
            return
        objs = summary["live"]
        labels.append("after_history")
    else:
        objs, exc = F.build_case(case)
        if objs is None:
            ctx.case(case, False, ["invalid_initial"])
            return
    reach = S.reachable(objs)
    problems = []
    stats = {}
    nontrivial = False
    for name, obj in sorted(reach.items()):
        for attr in obj.calculated_attributes:
            v = getattr(obj, attr)
            entries = [("%s.%s[%s]" % (name, attr, (S.key_of(k) if hasattr(k, "name") else k)), x) for k, x in v.items()] \
                if isinstance(v, dict) else [("%s.%s" % (name, attr), v)]
            for where, x in entries:
                try:
                    text = x.explain()
                    if not isinstance(text, str) or not text:
                        problems.append(("explain_not_text", "%s: explain() returned %r" % (where, text)))
                except Exception as ex:
                    problems.append(("explain_raises", "%s: explain() raised %s: %s" % (
                        where, type(ex).__name__, str(ex)[:200])))
                if not x.label:
                    problems.append(("no_label", "%s has no label" % where))
                n_arith, has_hourly = check_tree(where, x, problems, stats, None)
                if n_arith >= 3 and has_hourly:
                    nontrivial = True
    for k, v in stats.items():
        ctx.extra[k] = ctx.extra.get(k, 0) + v
    if problems:
        kind, detail = problems[0]
        ctx.violation(kind, case, "%s (%d problem(s))" % (detail, len(problems)),
                      {"kind": kind, "attr": detail.split(":")[0].split(".")[-1].split("[")[0][:50]})
    if any(type(o).__name__ in ("GPUServer", "BoaviztaCloudServer", "VideoStreaming", "WebApplication", "GenAIModel")
           for o in reach.values()):
        labels.append("builder")
    ctx.case(case, nontrivial, labels, sample={"classes": sorted({type(o).__name__ for o in reach.values()}),
                                               "history": [E.describe(e) for e in case["history"]]})


def replay(case, ctx):
    check(case, ctx)


def run_shard(ctx):
    runner.run_given(ctx, cases(), lambda c: check(c, ctx), ctx.budget["examples"])
