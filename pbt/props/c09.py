"""C09 — Explainable quantities obey unit-safe arithmetic."""
import math
from datetime import datetime, timedelta

import numpy as np
from hypothesis import strategies as st

from pbt.common import env, runner, snap

env.import_efootprint()

import pandas as pd  # noqa: E402
from efootprint.abstract_modeling_classes.explainable_objects import (  # noqa: E402
    EmptyExplainableObject, ExplainableQuantity, ExplainableHourlyQuantities)
from efootprint.abstract_modeling_classes.source_objects import SourceValue, SourceHourlyValues  # noqa: E402
from efootprint.builders.time_builders import create_hourly_usage_df_from_list  # noqa: E402
from efootprint.constants.units import u  # noqa: E402
import copy as _copy  # noqa: E402

ID = "C09"
TECHNIQUE = "property-based testing (Hypothesis, shrinking on) against reference arithmetic on {timestamp: base-unit float} + pint dimensionality"
LEVEL_TEXT = ("generated operand pairs (scalar / hourly / empty, 8 dimensions, several units each, equal / overlapping / "
              "disjoint / shifted indexes, naive or UTC) checked against an independent reference arithmetic and "
              "algebraic laws; exploration, not proof")
LEVEL_NOTE = "trusts pint's unit conversion factors (the property names unit-aware arithmetic as the reference)"
RULE = ("Hypothesis draws an operation and operands: scalar quantities in one of ~30 units of 8 dimensions, hourly "
        "series (length 1-30, same/overlapping/disjoint/shifted indexes, naive or UTC-aware) or the empty value. The "
        "result's physical value (base units, per timestamp) and dimensionality are compared with reference arithmetic "
        "written in the harness (missing hours = 0 for + and *), operands must keep their physical value, incompatible "
        "dimensions must raise (also in the scalar max helper, drawn with another unit of the same dimension or another "
        "dimension), and commutativity / neutral / absorbing / additivity-of-totals laws are checked. "
        "Non-trivial = operands with different units of the same dimension or non-identical indexes; distinct by case hash.")
ASSUMPTIONS = ["pint's conversion factors are the reference for unit conversion",
               "hourly subtraction is only exercised on identical indexes (the property states alignment for + and *)",
               "relative tolerance 1e-12 on base-unit values"]
BUDGET = {"quick": dict(examples=1200, wall_guard_s=600), "thorough": dict(examples=25000, wall_guard_s=3000)}

UNITS = {
    "dimensionless": ["dimensionless", "kB", "MB", "GB", "TB", "percent", "hour/day", "ppm", "GB/TB"],
    "time": ["s", "min", "hour", "day", "year"],
    "power": ["W", "kW", "mW"],
    "energy": ["kWh", "Wh", "J"],
    "mass": ["g", "kg", "tonne"],
    "cpu": ["cpu_core"],
    "gpu": ["gpu"],
    "intensity": ["g/kWh", "kg/kWh", "kg/MWh"],
    "rate": ["kWh/GB", "Wh/MB"],
}
FAMILIES = sorted(UNITS)
RTOL = 1e-12


def mags():
    # besides ordinary values: tiny positive ones and integers +/- a few 1e-9 (ceil must not round them down)
    return st.one_of(st.integers(-50, 1000).map(float), st.integers(-400, 4000).map(lambda k: k / 8.0),
                     st.sampled_from([0.0, 1.0, 0.1, 0.3, 33.3, 1e-3, 1e6, 4e-11, 3e-9, 1 + 3e-9, 2 - 3e-9,
                                      500 + 4e-6, 7 + 2e-8]))


@st.composite
def scalar(draw, family=None):
    fam = family or draw(st.sampled_from(FAMILIES))
    return {"kind": "scalar", "m": draw(mags()), "unit": draw(st.sampled_from(UNITS[fam])), "fam": fam}


@st.composite
def hourly(draw, family=None, ref=None, aware=None):
    fam = family or draw(st.sampled_from(FAMILIES))
    n = draw(st.integers(1, 30))
    if ref is None:
        start = draw(st.integers(0, 24 * 400))
    else:
        mode = draw(st.sampled_from(["same", "overlap", "disjoint", "shift"]))
        others = [g for g in range(1, len(ref["values"]) - 1) if g != ref.get("gap")] \
            if ref.get("gap") is not None else []
        if others and draw(st.booleans()):
            # same first hour, same last hour, same number of rows - but the hole is elsewhere (two UTC series of
            # countries whose clocks go back on different nights)
            k = len(ref["values"])
            return {"kind": "hourly", "start": ref["start"], "values": draw(st.lists(mags(), min_size=k, max_size=k)),
                    "unit": draw(st.sampled_from(UNITS[fam])), "fam": fam,
                    "aware": ref["aware"] if aware is None else aware, "gap": draw(st.sampled_from(others))}
        if mode == "same":
            start, n = ref["start"], len(ref["values"])
        elif mode == "overlap":
            start = ref["start"] + draw(st.integers(-len(ref["values"]) + 1, len(ref["values"]) - 1)) \
                if len(ref["values"]) > 1 else ref["start"]
        elif mode == "disjoint":
            start = ref["start"] + len(ref["values"]) + draw(st.integers(0, 50))
        else:
            start = ref["start"] + draw(st.integers(-5, 5))
    vals = draw(st.lists(mags(), min_size=n, max_size=n))
    if aware is None:
        aware = draw(st.booleans()) if ref is None else ref["aware"]
    out = {"kind": "hourly", "start": start, "values": vals, "unit": draw(st.sampled_from(UNITS[fam])),
           "fam": fam, "aware": aware}
    # a time line with a hole (what a UTC series looks like after a fall-back night): one more value, one hour dropped,
    # so that the number of rows stays n
    if n >= 2 and draw(st.floats(0, 1)) < 0.2:
        out["values"] = vals + [draw(mags())]
        out["gap"] = draw(st.integers(1, n - 1))
    return out


def empty():
    return st.just({"kind": "empty"})


def make(o):
    if o["kind"] == "empty":
        return EmptyExplainableObject()
    if o["kind"] == "scalar":
        return SourceValue(o["m"] * u(o["unit"]), label="a scalar")
    df = create_hourly_usage_df_from_list(o["values"], datetime(2024, 1, 1) + timedelta(hours=o["start"]),
                                          u(o["unit"]))
    if o.get("gap") is not None:
        df = df.drop(df.index[o["gap"]])
    if o["aware"]:
        df = df.tz_localize("UTC")
    return SourceHourlyValues(df, label="a series")


def kept_values(o):
    return [v for i, v in enumerate(o["values"]) if i != o.get("gap")]


def factor(unit):
    q = (1.0 * u(unit)).to_base_units()
    return float(q.magnitude), q.dimensionality


def ref_value(o):
    """Reference physical value: ('empty',) | ('scalar', dim, x) | ('hourly', dim, {hour: x}, aware)"""
    if o["kind"] == "empty":
        return ("empty",)
    f, dim = factor(o["unit"])
    if o["kind"] == "scalar":
        return ("scalar", dim, o["m"] * f)
    return ("hourly", dim, {o["start"] + i: v * f for i, v in enumerate(o["values"]) if i != o.get("gap")},
            o["aware"])


def observed(v):
    """Physical value of a library result in the same shape as ref_value."""
    if isinstance(v, EmptyExplainableObject):
        return ("empty",)
    if isinstance(v, ExplainableQuantity):
        qb = v.value.to_base_units()
        return ("scalar", qb.dimensionality, float(qb.magnitude))
    if isinstance(v, ExplainableHourlyQuantities):
        c = snap.canon(v)
        base = np.datetime64("2024-01-01T00", "ns").astype("int64")
        hours = (c["t"] - base) / 3.6e12
        assert np.all(hours == np.round(hours)), "timestamps not on the hour grid"
        q = v.value["value"].values.quantity.to_base_units()
        return ("hourly", q.dimensionality, {int(h): float(x) for h, x in zip(hours, c["v"])}, c["aware"])
    if isinstance(v, (int, float)):
        return ("number", v)
    raise AssertionError("unexpected result type %s" % type(v))


def feq(a, b, scale=None):
    if a == b:
        return True
    if math.isnan(a) or math.isnan(b):
        return False
    s = max(abs(a), abs(b)) if scale is None else scale
    return abs(a - b) <= RTOL * s + 1e-300


def same(obs, exp, zero_fill=True, scale=None):
    """Compare observed and expected values; returns '' or a reason. ``scale``: magnitude of the operands (for
    sums and differences the rounding error is relative to the operands, not to the result)."""
    if exp[0] == "empty":
        return "" if obs[0] == "empty" else "expected the empty value, got %s" % (obs,)
    if obs[0] != exp[0]:
        return "kind %s instead of %s" % (obs[0], exp[0])
    if obs[1] != exp[1]:
        return "dimension %s instead of %s" % (dict(obs[1]), dict(exp[1]))
    if exp[0] == "scalar":
        return "" if feq(obs[2], exp[2], scale) else "value %r instead of %r" % (obs[2], exp[2])
    if obs[3] != exp[3]:
        return "tz-awareness changed"
    keys = set(obs[2]) | set(exp[2])
    scale = max([abs(x) for x in exp[2].values()] + [abs(x) for x in obs[2].values()] + [scale or 0.0])
    if not zero_fill and set(obs[2]) != set(exp[2]):
        return "hours %s instead of %s" % (sorted(obs[2])[:5], sorted(exp[2])[:5])
    for k in sorted(keys):
        if not feq(obs[2].get(k, 0.0), exp[2].get(k, 0.0), scale):
            return "hour %d: %r instead of %r" % (k, obs[2].get(k, 0.0), exp[2].get(k, 0.0))
    return ""


def magnitude(r):
    if r[0] == "scalar":
        return abs(r[2])
    if r[0] == "hourly":
        return max([abs(x) for x in r[2].values()] + [0.0])
    return 0.0


def dim_mul(d1, d2, sign=1):
    return (1 * u.dimensionless).dimensionality.__class__(
        {k: d1.get(k, 0) + sign * d2.get(k, 0) for k in set(d1) | set(d2)
         if d1.get(k, 0) + sign * d2.get(k, 0) != 0})


def ref_binop(op, a, b):
    """Reference result of a op b, or 'raise' when dimensions are incompatible / 'skip' when unspecified."""
    if op in ("+", "-"):
        if a[0] == "empty" and b[0] == "empty":
            return ("empty",)
        if b[0] == "empty":
            return a
        if a[0] == "empty":
            return b if op == "+" else "skip"
        if a[0] != b[0]:
            return "raise"
        if a[1] != b[1]:
            return "raise"
        sgn = 1 if op == "+" else -1
        if a[0] == "scalar":
            return ("scalar", a[1], a[2] + sgn * b[2])
        if a[3] != b[3]:
            return "raise"
        if op == "-" and set(a[2]) != set(b[2]):
            return "skip"
        keys = set(a[2]) | set(b[2])
        return ("hourly", a[1], {k: a[2].get(k, 0.0) + sgn * b[2].get(k, 0.0) for k in keys}, a[3])
    if op == "*":
        if a[0] == "empty" or b[0] == "empty":
            return ("empty",)
        dim = dim_mul(a[1], b[1])
        if a[0] == "scalar" and b[0] == "scalar":
            return ("scalar", dim, a[2] * b[2])
        if a[0] == "hourly" and b[0] == "hourly":
            if a[3] != b[3]:
                return "raise"
            keys = set(a[2]) | set(b[2])
            return ("hourly", dim, {k: a[2].get(k, 0.0) * b[2].get(k, 0.0) for k in keys}, a[3])
        h, s = (a, b) if a[0] == "hourly" else (b, a)
        return ("hourly", dim, {k: x * s[2] for k, x in h[2].items()}, h[3])
    if op == "/":
        if a[0] == "empty" and b[0] == "scalar":
            return ("empty",)
        if a[0] == "empty" or b[0] == "empty":
            return "skip"
        if a[0] == "hourly" and b[0] == "hourly":
            return "raise"
        dim = dim_mul(a[1], b[1], -1)
        if a[0] == "scalar" and b[0] == "scalar":
            return "skip" if b[2] == 0 else ("scalar", dim, a[2] / b[2])
        if a[0] == "hourly":
            return "skip" if b[2] == 0 else ("hourly", dim, {k: x / b[2] for k, x in a[2].items()}, a[3])
        if any(x == 0 for x in b[2].values()):
            return "skip"
        return ("hourly", dim, {k: a[2] / x for k, x in b[2].items()}, b[3])
    raise ValueError(op)


def apply_op(op, x, y):
    if op == "+":
        return x + y
    if op == "-":
        return x - y
    if op == "*":
        return x * y
    return x / y


@st.composite
def cases(draw):
    kind = draw(st.sampled_from(["binop"] * 6 + ["helper"] * 3 + ["laws"] * 2))
    if kind == "binop":
        op = draw(st.sampled_from(["+", "+", "-", "*", "*", "/"]))
        a = draw(st.one_of(scalar(), hourly(), hourly(), empty()))
        same_fam = op in "+-" and draw(st.floats(0, 1)) < 0.8
        fam = a.get("fam") if same_fam else None
        if a["kind"] == "hourly":
            b = draw(st.one_of(hourly(family=fam, ref=a), hourly(family=fam, ref=a), scalar(family=fam), empty()))
        elif a["kind"] == "scalar":
            b = draw(st.one_of(scalar(family=fam), scalar(family=fam), hourly(family=fam), empty()))
        else:
            b = draw(st.one_of(scalar(), hourly(), empty()))
        return {"kind": "binop", "op": op, "a": a, "b": b}
    if kind == "helper":
        h = draw(st.sampled_from(["sum", "mean", "max", "abs", "ceil", "neg", "shift", "cmp_max", "cmp_min",
                                  "round", "copy", "copy_scalar", "to", "sum_builtin", "alias_chain", "alias_chain",
                                  "scalar_max", "scalar_max"]))
        a = draw(hourly()) if h not in ("copy_scalar", "scalar_max") else draw(scalar())
        c = {"kind": "helper", "h": h, "a": a}
        if h == "shift":
            c["shift"] = draw(st.sampled_from([[0.0, "hour"], [1.0, "hour"], [59.0, "min"], [60.0, "min"],
                                               [61.0, "min"], [2.5, "hour"], [3.0, "hour"], [1.0, "day"],
                                               [3600.0, "s"], [7199.0, "s"]]))
        if h in ("cmp_max", "cmp_min"):
            c["b"] = draw(st.one_of(hourly(family=a["fam"], ref=a), empty()))
        if h == "scalar_max":
            # mostly another unit of the same dimension (numeric and physical order may disagree), sometimes another one
            c["b"] = draw(scalar(family=a["fam"] if draw(st.floats(0, 1)) < 0.8 else None))
        if h in ("to", "alias_chain"):
            c["unit"] = draw(st.sampled_from(UNITS[a["fam"]]))
        if h == "alias_chain":
            c["how"] = draw(st.sampled_from(["plus_empty", "plus_zero", "sum_single", "empty_plus"]))
            c["then"] = draw(st.sampled_from(["abs", "neg", "copy", "cmp", "sum", "add_self"]))
        if h == "sum_builtin":
            c["others"] = draw(st.lists(st.one_of(hourly(family=a["fam"], ref=a), empty()), min_size=0, max_size=3))
        return c
    a = draw(st.one_of(scalar(), hourly()))
    fam = a["fam"]
    if a["kind"] == "hourly":
        b = draw(st.one_of(hourly(family=fam, ref=a), empty()))
    else:
        b = draw(st.one_of(scalar(family=fam), empty()))
    return {"kind": "laws", "a": a, "b": b}


def nontrivial(c):
    a, b = c.get("a"), c.get("b")
    if not b or a["kind"] == "empty" or b["kind"] == "empty":
        return c["kind"] == "helper" and c["h"] in ("shift", "to", "ceil")
    if a.get("fam") == b.get("fam") and a.get("unit") != b.get("unit"):
        return True
    if a["kind"] == "hourly" and b["kind"] == "hourly":
        return a["start"] != b["start"] or len(a["values"]) != len(b["values"]) or a.get("gap") != b.get("gap")
    return False


def check(c, ctx):
    labels = ["kind=" + c["kind"]]
    fail = lambda kind, detail: ctx.violation(kind, c, detail, {"kind": kind, "op": c.get("op", c.get("h", "laws"))})
    if c["kind"] == "binop":
        a, b = make(c["a"]), make(c["b"])
        ra, rb = ref_value(c["a"]), ref_value(c["b"])
        exp = ref_binop(c["op"], ra, rb)
        labels.append("op=%s:%s:%s" % (c["op"], c["a"]["kind"], c["b"]["kind"]))
        if exp == "skip":
            labels.append("unspecified_skipped")
            ctx.case(c, False, labels)
            return
        try:
            res = apply_op(c["op"], a, b)
            raised = None
        except runner.Found:
            raise
        except Exception as ex:
            res, raised = None, ex
        if exp == "raise":
            labels.append("expect_raise")
            if raised is None:
                fail("no_error_on_incompatible", "%s %s %s returned %s instead of raising" % (
                    c["a"], c["op"], c["b"], res))
        else:
            if raised is not None:
                fail("unexpected_error", "%s %s %s raised %s: %s" % (c["a"], c["op"], c["b"],
                                                                        type(raised).__name__, raised))
            else:
                why = same(observed(res), exp, scale=magnitude(ra) + magnitude(rb) if c["op"] in "+-" else None)
                if why:
                    fail("wrong_result", "%s %s %s: %s" % (c["a"], c["op"], c["b"], why))
        for o, x, nm in ((c["a"], a, "left"), (c["b"], b, "right")):
            why = same(observed(x), ref_value(o), zero_fill=False)
            if why:
                fail("operand_changed", "%s operand of %s changed: %s" % (nm, c["op"], why))
    elif c["kind"] == "helper":
        h = c["h"]
        labels.append("helper=" + h)
        a = make(c["a"])
        ra = ref_value(c["a"])
        f, dim = factor(c["a"]["unit"])
        vals = ra[2] if ra[0] == "hourly" else None
        try:
            if h == "sum":
                exp, res = ("scalar", dim, math.fsum(vals.values())), a.sum()
            elif h == "mean":
                exp, res = ("scalar", dim, math.fsum(vals.values()) / len(vals)), a.mean()
            elif h == "max":
                exp, res = ("scalar", dim, max(vals.values())), a.max()
            elif h == "abs":
                exp, res = ("hourly", dim, {k: abs(x) for k, x in vals.items()}, ra[3]), a.abs()
            elif h == "neg":
                exp, res = ("hourly", dim, {k: -x for k, x in vals.items()}, ra[3]), -a
            elif h == "ceil":
                # ceil acts on the magnitude in the series' own unit
                def ref_ceil(v):
                    r = round(v)
                    # within 1e-9 (relative) of an integer the value counts as that integer (conversion noise);
                    # anything else is rounded up
                    return float(r) if abs(v - r) <= 1e-9 * abs(r) else float(math.ceil(v))
                exp = ("hourly", dim, {k: ref_ceil(v) * f for k, v in
                                       zip(sorted(vals), kept_values(c["a"]))}, ra[3])
                res = a.ceil()
            elif h == "shift":
                d = SourceValue(c["shift"][0] * u(c["shift"][1]), label="shift")
                nh = math.floor(round(c["shift"][0] * factor(c["shift"][1])[0] / 3600.0, 9))
                exp, res = ("hourly", dim, {k + nh: x for k, x in vals.items()}, ra[3]), \
                    a.return_shifted_hourly_quantities(d)
            elif h in ("cmp_max", "cmp_min"):
                b = make(c["b"])
                rb = ref_value(c["b"])
                other = rb[2] if rb[0] == "hourly" else {}
                fn = max if h == "cmp_max" else min
                keys = set(vals) | set(other)
                exp = ("hourly", dim, {k: fn(vals.get(k, 0.0), other.get(k, 0.0)) for k in keys}, ra[3])
                res = a.np_compared_with(b, "max" if h == "cmp_max" else "min")
            elif h == "scalar_max":
                b = make(c["b"])
                rb = ref_value(c["b"])
                if rb[1] != dim:
                    labels.append("scalar_max=incompatible")
                    for x, y in ((a, b), (b, a)):
                        try:
                            r = x.compare_with_and_return_max(y)
                        except Exception:
                            continue
                        fail("no_dimension_error", "max of %s and %s gave %s instead of raising" % (c["a"], c["b"], r))
                    ctx.case(c, True, labels)
                    return
                labels.append("scalar_max=" + ("other_unit" if c["a"]["unit"] != c["b"]["unit"] else "same_unit"))
                exp, res = ("scalar", dim, max(ra[2], rb[2])), a.compare_with_and_return_max(b)
                why = same(observed(b.compare_with_and_return_max(a)), exp)
                if why:
                    fail("wrong_result", "max(%s, %s), operands swapped: %s" % (c["b"], c["a"], why))
                why = same(observed(b), rb, zero_fill=False)
                if why:
                    fail("operand_changed", "second operand of scalar max changed: %s" % why)
            elif h == "round":
                exp = ("hourly", dim, {k: round(v, 2) * f for k, v in zip(sorted(vals), kept_values(c["a"]))}, ra[3])
                res = round(a, 2)
            elif h == "copy":
                exp, res = ra, (a.copy() if len(c["a"]["values"]) % 2 else _copy.copy(a))
            elif h == "copy_scalar":
                exp, res = ra, (a.copy() if int(c["a"]["m"]) % 2 else _copy.copy(a))
            elif h == "to":
                exp, res = ra, a.to(u(c["unit"]))
            elif h == "alias_chain":
                # a result that may share its DataFrame with the operand is converted in place: the operand must keep
                # its physical value and still compute right afterwards
                str(a)
                _ = a.unit
                r = {"plus_empty": lambda: a + EmptyExplainableObject(), "plus_zero": lambda: a + 0,
                     "sum_single": lambda: sum([a], start=EmptyExplainableObject()),
                     "empty_plus": lambda: EmptyExplainableObject() + a}[c["how"]]()
                r.to(u(c["unit"]))
                why = same(observed(r), ra)
                if why:
                    fail("wrong_result", "%s then .to(%s): %s" % (c["how"], c["unit"], why))
                why = same(observed(a), ra, zero_fill=False)
                if why:
                    fail("operand_changed", "operand changed by converting the result of %s: %s" % (c["how"], why))
                t = c["then"]
                if t == "abs":
                    exp, res = ("hourly", dim, {k: abs(x) for k, x in vals.items()}, ra[3]), a.abs()
                elif t == "neg":
                    exp, res = ("hourly", dim, {k: -x for k, x in vals.items()}, ra[3]), -a
                elif t == "sum":
                    exp, res = ("scalar", dim, math.fsum(vals.values())), a.sum()
                elif t == "add_self":
                    exp, res = ("hourly", dim, {k: 2 * x for k, x in vals.items()}, ra[3]), a + a
                elif t == "cmp":
                    exp, res = ("hourly", dim, {k: max(x, 0.0) for k, x in vals.items()}, ra[3]), \
                        a.np_compared_with(EmptyExplainableObject(), "max")
                else:
                    exp, res = ra, a.copy()
            elif h == "sum_builtin":
                others = [make(o) for o in c["others"]]
                tot = dict(vals)
                for o in c["others"]:
                    r = ref_value(o)
                    if r[0] == "hourly":
                        for k, x in r[2].items():
                            tot[k] = tot.get(k, 0.0) + x
                exp, res = ("hourly", dim, tot, ra[3]), sum([a] + others)
        except runner.Found:
            raise
        except Exception as ex:
            fail("unexpected_error", "%s(%s) raised %s: %s" % (h, c, type(ex).__name__, ex))
            ctx.case(c, nontrivial(c), labels)
            return
        why = same(observed(res), exp)
        if why:
            fail("wrong_result", "%s on %s: %s" % (h, c["a"], why))
        if h not in ("to", "alias_chain"):
            why = same(observed(a), ra, zero_fill=False)
            if why:
                fail("operand_changed", "operand of %s changed: %s" % (h, why))
        if h in ("copy", "copy_scalar") and res is a:
            fail("copy_aliases", "copy returned the same object")
        if h in ("copy", "copy_scalar"):
            # converting the copy in place must not change the physical value of the original
            res.to(u(UNITS[c["a"]["fam"]][-1]))
            why = same(observed(a), ra, zero_fill=False) or same(observed(res), ra, zero_fill=False)
            if why:
                fail("copy_aliases", "after converting the copy to another unit: %s" % why)
    else:
        a, b = make(c["a"]), make(c["b"])
        for op in ("+", "*"):
            try:
                r1, r2 = apply_op(op, a, b), apply_op(op, b, a)
            except runner.Found:
                raise
            except Exception as ex:
                fail("unexpected_error", "%s %s %s raised %s: %s" % (c["a"], op, c["b"], type(ex).__name__, ex))
                continue
            o1, o2 = observed(r1), observed(r2)
            if o1[0] == "number" or o2[0] == "number":
                continue
            why = same(o1, o2)
            if why:
                fail("not_commutative", "%s %s %s: a∘b vs b∘a: %s" % (c["a"], op, c["b"], why))
        if c["a"]["kind"] == "hourly" and c["b"]["kind"] == "hourly":
            s = (a + b).sum()
            t = a.sum() + b.sum()
            so, to = observed(s), observed(t)
            scale = sum(abs(x) for x in ref_value(c["a"])[2].values()) + sum(
                abs(x) for x in ref_value(c["b"])[2].values())
            if so[1] != to[1] or not feq(so[2], to[2], max(scale, 1e-300) * 1e3):
                fail("totals_not_additive", "sum(a+b)=%r but sum(a)+sum(b)=%r" % (so[2], to[2]))
            labels.append("law=additivity")
        labels.append("law=commutativity")
    ctx.case(c, nontrivial(c), labels)


def replay(case, ctx):
    check(case, ctx)


def run_shard(ctx):
    runner.run_given(ctx, cases(), lambda c: check(c, ctx), ctx.budget["examples"], shrink=True)
