"""C14 — Invalid inputs are rejected, and a rejected edit changes nothing."""
import copy
from datetime import datetime
from inspect import signature

from hypothesis import strategies as st

from pbt.common import env, runner, snap, fresh as F, spec as S, gen as G, edits as E, machine as M, ident as I

env.import_efootprint()

from efootprint.abstract_modeling_classes.explainable_objects import EmptyExplainableObject  # noqa: E402
from efootprint.abstract_modeling_classes.modeling_update import ModelingUpdate  # noqa: E402
from efootprint.abstract_modeling_classes.source_objects import SourceValue, SourceObject, SourceHourlyValues  # noqa: E402
from efootprint.builders.time_builders import create_hourly_usage_df_from_list  # noqa: E402
from efootprint.constants.units import u  # noqa: E402
from efootprint.core.all_classes_in_order import ALL_EFOOTPRINT_CLASSES  # noqa: E402
from efootprint.core.system import System  # noqa: E402

ID = "C14"
TECHNIQUE = "exhaustive enumeration of the (class, parameter, kind of invalid value, site) grid on a system containing every class, plus property-based sampling (Hypothesis) of the same cells on generated systems at generated positions of edit histories; oracle = an exception is raised and identity + value snapshots of the whole model are unchanged"
LEVEL_TEXT = ("every class of the public class list x every constructor parameter x every kind of invalid value x "
              "{construction, later assignment, inside a multi-change update next to a valid change of another object / after "
              "a valid change of the same object / after a re-submitted unchanged value, in-place list operation}: the grid is "
              "enumerated completely on a reference system in both tiers; generated systems / histories are sampled")
LEVEL_NOTE = "which values are 'invalid' follows the property text: wrong pint dimensionality, negative unless allowed, wrong type, wrong-class list element, value outside the allowed list"
RULE = ("Grid (exhaustive): for each of the 18 public classes and each __init__ parameter: quantity parameters x {wrong "
        "dimensionality, negative (unless attributes_that_can_have_negative_values), raw number, str, bare pint "
        "Quantity, hourly series}; list parameters x {element of a wrong class, raw string element}; choice parameters "
        "x {value outside list_values / conditional_list_values}; hourly parameter x {scalar, raw number}; each at "
        "construction, as a single assignment and inside a ModelingUpdate next to a valid change. Oracle: an exception "
        "is raised; for assignments identity_snapshot (same objects, links, edges) and snapshot (values of inputs and "
        "calculated attributes) of the whole model are equal before and after, the valid sibling change included. "
        "Sampled part: the same cells on generated systems after 0-3 valid edits. Non-trivial = every cell on a "
        "computed system; distinct by (class, parameter, kind, site).")
ASSUMPTIONS = ["wrong-class single links (Job(server=device)) are exercised and reported under their own label but not "
               "asserted: the property text scopes wrong-class to list-valued parameters",
               "a hourly series of another length is refused on assignment (comparison with the old series raises)"]
BUDGET = {"quick": dict(examples=6, wall_guard_s=700, sampled_cells=6),
          "thorough": dict(examples=60, wall_guard_s=3000, sampled_cells=12)}
EXHAUSTIVE = {"quick": True, "thorough": True}

FULL_SPEC = {"objs": {
    "st_a": {"cls": "Storage", "base_storage_need": [5.0, "TB"]},
    "st_b": {"cls": "Storage"}, "st_c": {"cls": "Storage"},
    "srv_a": {"cls": "Server", "storage": "st_a", "server_type": "on-premise",
              "fixed_nb_of_instances": [5000.0, "dimensionless"]},
    "srv_gpu": {"cls": "GPUServer", "storage": "st_b", "server_type": "serverless", "compute": [16.0, "gpu"]},
    "srv_cloud": {"cls": "BoaviztaCloudServer", "storage": "st_c", "server_type": "autoscaling",
                  "provider": "scaleway", "instance_type": "ent1-s"},
    "svc_video": {"cls": "VideoStreaming", "server": "srv_a"},
    "svc_web": {"cls": "WebApplication", "server": "srv_a", "technology": "php-symfony"},
    "svc_ai": {"cls": "GenAIModel", "server": "srv_gpu", "provider": "mistralai", "model_name": "open-mistral-7b"},
    "job_plain": {"cls": "Job", "server": "srv_cloud"},
    "job_video": {"cls": "VideoStreamingJob", "service": "svc_video", "resolution": "720p (1280 x 720)",
                  "video_duration": [20.0, "min"]},
    "job_web": {"cls": "WebApplicationJob", "service": "svc_web", "implementation_details": "default"},
    "job_ai": {"cls": "GenAIJob", "service": "svc_ai"},
    "step_a": {"cls": "UsageJourneyStep", "jobs": ["job_plain", "job_video"], "user_time_spent": [61.0, "min"]},
    "step_b": {"cls": "UsageJourneyStep", "jobs": ["job_web", "job_ai", "job_plain"]},
    "uj_a": {"cls": "UsageJourney", "uj_steps": ["step_a", "step_b"]},
    "dev_a": {"cls": "Device"}, "dev_b": {"cls": "Device"},
    "cty_a": {"cls": "Country", "timezone": "Europe/Paris"}, "net_a": {"cls": "Network"},
    "up_a": {"cls": "UsagePattern", "usage_journey": "uj_a", "devices": ["dev_a", "dev_b"], "network": "net_a",
             "country": "cty_a", "start": [2025, 3, 29, 20], "starts": [4.0, 0.0, 2.5, 7.0, 1.0, 3.0]},
    "up_b": {"cls": "UsagePattern", "usage_journey": "uj_a", "devices": ["dev_a"], "network": "net_a",
             "country": "cty_a", "start": [2025, 3, 30, 1], "starts": [1.0, 2.0, 3.0]}},
    "system": ["up_a", "up_b"], "sharing": "jobs_too"}


def params_of(cls_name):
    """[(param, kind of parameter)] from the constructor signature."""
    cls = S.CLASSES[cls_name] if cls_name != "System" else System
    out = []
    meta = S.META.get(cls_name, {"links": {}, "lists": {"usage_patterns": ()}, "choices": []})
    for p in signature(cls.__init__).parameters:
        if p in ("self", "name", "short_name"):
            continue
        if p in meta["lists"]:
            out.append((p, "list"))
        elif p in meta["links"]:
            out.append((p, "link"))
        elif p in meta["choices"]:
            out.append((p, "choice"))
        elif p == "hourly_usage_journey_starts":
            out.append((p, "hourly"))
        elif p == "timezone":
            out.append((p, "tz"))
        else:
            out.append((p, "quantity"))
    return out


KINDS = {"quantity": ["wrong_dimension", "negative", "raw_number", "string", "bare_quantity", "hourly_series",
                      "not_allowed_for_server_type", "value_of_another_object", "computed_value_without_label"],
         "list": ["wrong_class_element", "wrong_class_element_2", "string_element"],
         "choice": ["outside_allowed_values", "incompatible_with_fixed_count"],
         "hourly": ["scalar_instead", "raw_number", "other_length"], "link": ["wrong_class_link"],
         "tz": ["raw_string"]}
# group: in one ModelingUpdate next to a valid change of another object; group_same_object: after a valid change of
# another input of the same object; group_after_noop: right after a change that re-submits an unchanged value
SITES = ["construction", "assignment", "group", "group_same_object", "group_after_noop", "list_mutator"]


def grid(spec):
    cells = []
    seen_cls = set()
    for n, e in list(spec["objs"].items()) + [("system", {"cls": "System"})]:
        if e["cls"] == "UsagePattern" and n not in spec["system"]:
            continue
        first_of_class = e["cls"] not in seen_cls
        seen_cls.add(e["cls"])
        for p, pk in params_of(e["cls"]):
            for kind in KINDS[pk]:
                for site in SITES:
                    if site == "construction" and (not first_of_class or kind in ("other_length",
                                                                                    "wrong_class_element_2")):
                        continue
                    if site == "list_mutator" and pk != "list":
                        continue
                    if kind == "not_allowed_for_server_type" and not (
                            p == "fixed_nb_of_instances" and e["cls"] in S.SERVER_CLS and site != "construction"):
                        continue
                    if kind == "computed_value_without_label" and (site == "construction" or p not in (
                            "power", "lifespan", "carbon_footprint_fabrication", "data_transferred",
                            "average_carbon_intensity", "user_time_spent")):
                        continue
                    if kind == "value_of_another_object" and (site == "construction" or p not in (
                            "power", "lifespan", "carbon_footprint_fabrication", "data_transferred",
                            "average_carbon_intensity", "user_time_spent")):
                        continue
                    if kind == "incompatible_with_fixed_count" and not (
                            p == "server_type" and e["cls"] in S.SERVER_CLS and site != "construction"):
                        continue
                    cells.append({"obj": n, "cls": e["cls"], "param": p, "pkind": pk, "kind": kind, "site": site})
    return cells


def default_unit(cls_name, param, obj):
    if param == "fixed_nb_of_instances":
        return "dimensionless"
    cur = getattr(obj, param, None)
    try:
        return str(cur.value.units)
    except Exception:
        return S.default_quantity(cls_name, param)[1]


def invalid_value(cell, objs, spec):
    """The invalid value for a cell, or None when the kind does not apply (e.g. negative where negatives are allowed)."""
    cls_name, p, kind = cell["cls"], cell["param"], cell["kind"]
    obj = objs[cell["obj"]]
    if cell["pkind"] == "quantity":
        unit = default_unit(cls_name, p, obj)
        dim = u(unit).dimensionality
        if kind == "wrong_dimension":
            for cand in ("W", "kg", "s", "cpu_core", "gpu", "GB"):
                if u(cand).dimensionality != dim:
                    return SourceValue(3 * u(cand))
        if kind == "negative":
            if p in type(obj).attributes_that_can_have_negative_values():
                return None
            return SourceValue(-2.5 * u(unit))
        if kind == "raw_number":
            return 3.0
        if kind == "string":
            return "abc"
        if kind == "bare_quantity":
            return 3 * u(unit)
        if kind == "hourly_series":
            return SourceHourlyValues(create_hourly_usage_df_from_list([1.0, 2.0], datetime(2025, 1, 1), u(unit)))
        if kind == "computed_value_without_label":
            # obj.power = obj.power * 2 without giving the result a label: refused ("should always have a label")
            return getattr(obj, p) * SourceValue(2 * u.dimensionless)
        if kind == "value_of_another_object":
            # obj.power = other.power: the very value object another object holds (a refusal must leave both alone)
            for n2, o2 in sorted(objs.items()):
                if o2 is not obj and n2 != "system" and p in getattr(o2, "__dict__", {}) and \
                        getattr(getattr(o2, p), "modeling_obj_container", None) is not None:
                    return getattr(o2, p)
            return None
        if kind == "not_allowed_for_server_type":
            # a fixed number of instances is only allowed on an on-premise server (conditional allowed list)
            if str(obj.server_type.value) == "on-premise":
                return None
            return SourceValue(5000 * u.dimensionless)
    if cell["pkind"] == "list":
        if kind == "wrong_class_element":
            wrong = objs["st_a"] if "st_a" in objs else next(o for n, o in objs.items() if n.startswith("st"))
            cur = list(getattr(obj, p))
            return cur + [wrong]
        if kind == "wrong_class_element_2":
            # an object of another class that quacks enough like the expected one for computations to go through
            # (a server among devices has power, lifespan...): only the class check can refuse it
            want = {"devices": ("Server", "BoaviztaCloudServer"), "jobs": ("Network", "Device"),
                    "uj_steps": ("Job",), "usage_patterns": ("UsageJourney",)}[p]
            wrong = next((o for n, o in sorted(objs.items()) if type(o).__name__ in want), None)
            if wrong is None:
                return None
            cur = list(getattr(obj, p))
            return cur + [wrong] if cur else None
        return list(getattr(obj, p)) + ["job"]
    if cell["pkind"] == "choice":
        if kind == "incompatible_with_fixed_count":
            # autoscaling is an allowed server type, but not while a fixed number of instances is set
            from efootprint.abstract_modeling_classes.explainable_objects import EmptyExplainableObject
            if isinstance(obj.fixed_nb_of_instances, EmptyExplainableObject) or \
                    str(obj.server_type.value) != "on-premise":
                return None
            return SourceObject("autoscaling")
        return SourceObject("bogus value")
    if cell["pkind"] == "hourly":
        if kind == "scalar_instead":
            return SourceValue(3 * u.dimensionless)
        if kind == "raw_number":
            return 3.0
        return SourceHourlyValues(create_hourly_usage_df_from_list([1.0] * (len(obj.hourly_usage_journey_starts) + 2),
                                                                   datetime(2025, 1, 1)))
    if cell["pkind"] == "link":
        return next(o for n, o in objs.items() if type(o).__name__ == "Device")
    if cell["pkind"] == "tz":
        return "Europe/Paris"
    return None


SAFE_TO_SCALE = ("lifespan", "power", "idle_power", "carbon_footprint_fabrication", "average_carbon_intensity",
                 "bandwidth_energy_intensity", "data_transferred", "user_time_spent", "power_usage_effectiveness",
                 "carbon_footprint_fabrication_per_storage_capacity", "output_token_count", "video_duration",
                 "data_stored", "base_storage_need")


def valid_sibling_change(objs, spec, cell):
    """The other change of the multi-change sites: a valid change on another object, a valid change of another input of
    the same object, or an unchanged value re-submitted for another input (of the same object when it has one)."""
    if cell["site"] in ("group_same_object", "group_after_noop") and cell["cls"] != "System":
        obj = objs[cell["obj"]]
        for a in SAFE_TO_SCALE:
            if a != cell["param"] and a in S.quantity_inputs(cell["cls"]):
                cur = getattr(obj, a)
                if cell["site"] == "group_after_noop":
                    return [cur, SourceValue(1 * cur.value)]
                return [cur, SourceValue(cur.value * 1.5)]
        if cell["site"] == "group_same_object":
            return None
    if cell["site"] == "group_after_noop":
        cur = objs[next(n for n in sorted(spec["objs"]) if spec["objs"][n]["cls"] == "Network" and n in objs)]\
            .bandwidth_energy_intensity
        return [cur, SourceValue(1 * cur.value)]
    for n in ("net_a",) + tuple(sorted(spec["objs"])):
        if n in objs and spec["objs"].get(n, {}).get("cls") == "Network" and n != cell["obj"]:
            cur = objs[n].bandwidth_energy_intensity
            return [cur, SourceValue(cur.value * 2)]
    dev = next(n for n in sorted(spec["objs"]) if spec["objs"][n]["cls"] == "Device" and n != cell["obj"] and
               n in objs)
    cur = objs[dev].power
    return [cur, SourceValue(cur.value * 2)]


def run_cell(cell, objs, spec, ctx, case, reach=None, before=None):
    """Execute one cell on a live model. Returns labels."""
    bad = invalid_value(cell, objs, spec)
    if bad is None:
        return ["not_applicable"]
    sig = {"class": cell["cls"], "param": cell["param"], "invalid": cell["kind"], "site": cell["site"]}
    where = "%s(%s).%s <- %s [%s]" % (cell["cls"], cell["obj"], cell["param"], cell["kind"], cell["site"])
    asserted = cell["pkind"] != "link"
    obj = objs[cell["obj"]]
    if cell["site"] == "construction":
        # on a disposable copy of the model: a constructor links the new object to the objects it is given
        objs = S.build(spec, id_seed=15)
        bad = invalid_value(cell, objs, spec)
        if cell["cls"] == "System":
            try:
                System("another system", bad)
                raised = None
            except Exception as ex:
                raised = ex
        else:
            kw = S.kwargs_for(spec["objs"][cell["obj"]], objs)
            for a in S.META[cell["cls"]]["links"]:
                if a == "storage":
                    kw[a] = S.construct("tmp storage", {"cls": "Storage"}, {})
            kw[cell["param"]] = bad
            try:
                S.construct_with("tmp " + cell["obj"], cell["cls"], kw)
                raised = None
            except Exception as ex:
                raised = ex
    else:
        reach = reach if reach is not None else S.reachable(objs)
        id_before = I.identity_snapshot(reach)
        val_before = snap.snapshot(reach, calc=True, inputs=True)
        try:
            with M.watchdog():
                if cell["site"] == "list_mutator":
                    lst = getattr(obj, cell["param"])
                    how = ["append", "iadd", "insert", "extend", "setitem"][len(cell["obj"] + cell["kind"]) % 5]
                    if how == "append":
                        lst.append(bad[-1])
                    elif how == "iadd":
                        lst += [bad[-1]]
                        setattr(obj, cell["param"], lst)
                    elif how == "insert":
                        lst.insert(0, bad[-1])
                    elif how == "extend":
                        lst.extend([bad[-1]])
                    elif len(lst):
                        lst[0] = bad[-1]
                    else:
                        lst.append(bad[-1])
                elif cell["site"] == "assignment":
                    setattr(obj, cell["param"], bad)
                else:
                    cur = getattr(obj, cell["param"])
                    sib = valid_sibling_change(objs, spec, cell)
                    if sib is None:
                        return ["not_applicable"]
                    if cell["site"] == "group":
                        order = [[cur, bad], sib] if (len(cell["param"]) % 2) else [sib, [cur, bad]]
                    else:
                        order = [sib, [cur, bad]]
                    ModelingUpdate(order)
            raised = None
        except M.Hang as ex:
            raised = ex
        except Exception as ex:
            raised = ex
        now = S.reachable(objs)
        probs = []
        if set(now) != set(reach):
            probs.append("reachable objects changed: %s" % sorted(set(now) ^ set(reach)))
        else:
            probs += I.compare_identity(id_before, I.identity_snapshot(reach))
            d = snap.compare(val_before, snap.snapshot(reach, calc=True, inputs=True))
            if d:
                probs.append("values changed: %s %s" % (d[0][0], d[0][1]))
        if raised is not None and probs and asserted:
            ctx.violation("rejected_edit_changed_model", dict(case, cell=cell),
                          "%s raised %s but the model changed: %s" % (where, type(raised).__name__,
                                                                      "; ".join(probs[:3])),
                          dict(sig, kind="rejected_edit_changed_model"))
            return ["changed_after_reject"]
        if raised is None and cell["site"] != "construction":
            # undo so that the rest of the grid runs on the reference model
            pass
    if raised is None:
        if asserted:
            ctx.violation("invalid_value_accepted", dict(case, cell=cell), "%s was accepted" % where,
                          dict(sig, kind="invalid_value_accepted"))
        return ["accepted" if asserted else "wrong_class_link_accepted(not asserted)"]
    return ["rejected:" + type(raised).__name__]


def exhaustive_part(ctx):
    spec = FULL_SPEC
    cells = grid(spec)
    mine = [c for i, c in enumerate(cells) if i % runner.NSHARDS == max(ctx.shard, 0) % runner.NSHARDS]
    ctx.extra["grid_cells_total"] = len(cells) if ctx.shard <= 0 else 0
    objs = S.build(spec, id_seed=14)
    for c in mine:
        if ctx.expired():
            break
        case = {"mode": "grid", "cell": c}
        labels = run_cell(c, objs, spec, ctx, case)
        if any(l in ("accepted", "changed_after_reject") for l in labels) and c["site"] != "construction":
            objs = S.build(spec, id_seed=14)      # the model may have been modified: start again from a clean one
        ctx.case(case, "not_applicable" not in labels, ["grid", "site=" + c["site"], "invalid=" + c["kind"]] +
                 [l.split(":")[0] for l in labels], sample=c)


@st.composite
def cases(draw, n_cells):
    spec = draw(G.specs(max_len=12, long_prob=0.0))
    hist = draw(G.histories(spec, min_steps=0, max_steps=3))
    picks = draw(st.lists(st.integers(0, 10 ** 6), min_size=n_cells, max_size=n_cells))
    return {"mode": "sampled", "spec": spec, "id_seed": draw(st.integers(0, 2 ** 20)), "history": hist,
            "picks": picks}


def check(case, ctx):
    if case.get("mode") == "grid":
        objs = S.build(FULL_SPEC, id_seed=14)
        labels = run_cell(case["cell"], objs, FULL_SPEC, ctx, case)
        ctx.case(case, True, ["grid_replay"] + labels)
        return
    quiet = type("Q", (), {"violation": lambda self, *a, **k: False})()
    summary = M.run_history(case, quiet, compare_fresh=False, check_totals=False, check_undo=False)
    if summary.get("live") is None:
        ctx.case(case, False, ["history_" + summary["status"]])
        return
    objs, spec = summary["live"], summary["final_spec"]
    cells = [c for c in grid(spec) if c["site"] != "construction" and c["obj"] in S.spec_reachable(spec) | {"system"}]
    labels = ["sampled"]
    for pk in case["picks"]:
        c = cells[pk % len(cells)]
        if c["pkind"] == "list" and c["kind"] == "wrong_class_element":
            pass
        ls = run_cell(c, objs, spec, ctx, dict(case, picks=[pk]))
        labels += ["site=" + c["site"], "invalid=" + c["kind"]] + [l.split(":")[0] for l in ls]
        if any(l in ("accepted", "changed_after_reject") for l in ls):
            break
    ctx.case(case, True, labels, sample={"history": [E.describe(e) for e in case["history"]], "picks": case["picks"]})


def replay(case, ctx):
    check({k: v for k, v in case.items()}, ctx)


def run_shard(ctx):
    exhaustive_part(ctx)
    runner.run_given(ctx, cases(ctx.budget["sampled_cells"]), lambda c: check(c, ctx), ctx.budget["examples"])
