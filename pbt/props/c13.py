"""C13 — Saving a system to JSON and loading it back loses nothing."""
import copy
import json

from hypothesis import strategies as st

from pbt.common import env, runner, snap, fresh as F, spec as S, gen as G, edits as E, machine as M

env.import_efootprint()

from efootprint.abstract_modeling_classes.explainable_object_base_class import ExplainableObject  # noqa: E402
from efootprint.api_utils.json_to_system import json_to_system  # noqa: E402
from efootprint.api_utils.system_to_json import system_to_json  # noqa: E402

ID = "C13"
TECHNIQUE = "property-based testing (Hypothesis), round trip: system -> JSON text -> system compared object by object (ids, classes, links, labels, sources, inputs, recomputed results), re-export compared with the first export, one generated edit applied to the loaded and to a freshly built system, previous-major-version rewrite loaded"
LEVEL_TEXT = ("generated systems with every class (services, builder servers, empty lists, shared objects, 24 time "
              "zones), with and without calculated attributes saved, optionally after an edit history; JSON passed "
              "through json.dumps/loads; loaded model compared field by field and by recomputed values; liveness and "
              "version-upgrade checked")
LEVEL_NOTE = "the previous-major-version file is synthesised from the current export by applying the documented renaming backwards (Device -> Hardware, version 9.x)"
RULE = ("Hypothesis draws a system spec (builders enabled in half of the cases), save_calculated_attributes, optionally a "
        "history of 1-3 edits before saving, and one edit to apply after loading. Oracle: every original object has a "
        "loaded twin with the same id, class, name, links (ordered), labels, sources and input values (hourly inputs to "
        "3 decimals; generated values have at most 3 decimals); snapshot(loaded) == snapshot(original); "
        "system_to_json(loaded) == first export (floats rtol 1e-9, dependency id lists as multisets); the edit applied "
        "to the loaded system and to build(spec) gives equal snapshots; the export rewritten as version 9 loads to the "
        "same model. Non-trivial = spec with a builder class or a shared object or a non-Paris zone.")
ASSUMPTIONS = ["generated hourly inputs have at most 3 decimals so the documented rounding is lossless here"]
BUDGET = {"quick": dict(examples=24, wall_guard_s=600), "thorough": dict(examples=220, wall_guard_s=3600)}


# sources users attach to their inputs: names equal to the library's own constants but with another link, two sources
# sharing a name, no link at all
SOURCES = [["user data", "https://example.org/my-measurements"], ["hypothesis", None],
           ["Internal study", "https://example.org/study-v1"], ["Internal study", "https://example.org/study-v2"],
           ["Base ADEME_V19", "https://example.org/ademe-local-copy"], ["custom source without link", None]]


@st.composite
def cases(draw):
    builders = draw(st.booleans())
    spec = draw(G.specs(builders=builders, max_len=24, long_prob=0.0))
    hist = draw(G.histories(spec, min_steps=1, max_steps=3)) if draw(st.floats(0, 1)) < 0.3 else []
    cur = spec
    try:
        for e in hist:
            cur = E.apply_spec(cur, e)
    except E.Inapplicable:
        hist, cur = [], spec
    after = draw(G.simple_edit(cur))
    sources = draw(st.lists(st.tuples(st.integers(0, 10 ** 6), st.sampled_from(SOURCES)), min_size=0, max_size=5))
    return {"spec": spec, "id_seed": draw(st.integers(0, 2 ** 20)), "history": hist,
            "save_calc": draw(st.booleans()), "edit_after_load": after, "sources": [list(x) for x in sources]}


def describe_inputs(obj):
    """Per input attribute: (canonical value, label, source)."""
    out = {}
    for a in snap.input_attr_names(obj):
        v = obj.__dict__[a]
        lab = getattr(v, "label", None)
        src = getattr(v, "source", None)
        out[a] = (snap.canon(v), lab, (src.name, src.link) if src is not None else None)
    return out


_EMPTY_IDS = set()


def json_close(a, b, path="", exported_ids=None):
    """Structural comparison of two exports; floats rtol 1e-9; id lists of dependencies as multisets restricted to
    values of exported objects (an object outside the system, e.g. an unused job on a server of the system, is a live
    holder of dependencies in memory but is legitimately not exported)."""
    if exported_ids is None:
        exported_ids = {oid for cls, d in a.items() if isinstance(d, dict) for oid in d}
        # ids of calculated values that are empty on both sides: whether an empty value is wired in the graph only
        # tells whether its update function has ever run (see below); they are ignored in dependency lists
        def empties(x, acc):
            if isinstance(x, dict):
                if x.get("value", 0) is None and "id" in x:
                    acc.add(x["id"])
                for v in x.values():
                    empties(v, acc)
            return acc
        global _EMPTY_IDS
        _EMPTY_IDS = empties(a, set()) & empties(b, set())
    if isinstance(a, dict) and isinstance(b, dict):
        if set(a) != set(b):
            return "%s: keys differ %s" % (path, sorted(set(a) ^ set(b))[:4])
        if a.get("value", 0) is None and b.get("value", 0) is None and "label" in a:
            # an empty calculated value: its label only tells whether its update function has ever run (a network of a
            # pattern whose journey has no job is never computed by a fresh system): not a loss of information
            a = dict(a, label="", direct_ancestors_with_id=[], direct_children_with_id=[])
            b = dict(b, label="", direct_ancestors_with_id=[], direct_children_with_id=[])
        for k in a:
            if k in ("direct_ancestors_with_id", "direct_children_with_id"):
                keep = lambda ids: sorted(i for i in ids if i.split("-in-", 1)[-1] in exported_ids
                                          and i not in _EMPTY_IDS)
                if keep(a[k]) != keep(b[k]):
                    return "%s.%s: dependency ids differ: %s vs %s" % (path, k, keep(a[k])[:3], keep(b[k])[:3])
                continue
            r = json_close(a[k], b[k], path + "." + str(k), exported_ids)
            if r:
                return r
        return ""
    if isinstance(a, list) and isinstance(b, list):
        if len(a) != len(b):
            return "%s: list lengths %d vs %d" % (path, len(a), len(b))
        for i, (x, y) in enumerate(zip(a, b)):
            r = json_close(x, y, "%s[%d]" % (path, i), exported_ids)
            if r:
                return r
        return ""
    if isinstance(a, float) or isinstance(b, float):
        try:
            if a == b or abs(a - b) <= 1e-9 * max(abs(a), abs(b)) + 1e-3 * (1 if "values" in path else 0):
                return ""
        except TypeError:
            pass
        return "%s: %r vs %r" % (path, a, b)
    return "" if a == b else "%s: %r vs %r" % (path, a, b)


def by_name(flat, originals=None):
    """Loaded objects by spec key: a loaded twin has the id of the original it was saved from."""
    key_by_id = {o.id: k for k, o in (originals or {}).items()}
    out = {}
    for o in flat.values():
        n = "system" if type(o).__name__ == "System" else key_by_id.get(o.id, o.name)
        out[n] = o
        if n != "system":
            S.register_key(o, n)
    return out


def check(case, ctx):
    spec = case["spec"]
    labels = ["save_calc=%s" % case["save_calc"]]
    quiet = type("Q", (), {"violation": lambda self, *a, **k: False})()
    if case.get("sources"):
        # user-provided sources on some quantity inputs (given at construction, as a user would)
        spec = copy.deepcopy(spec)
        slots = [(n, a) for n in sorted(S.spec_reachable(spec)) for a in S.quantity_inputs(spec["objs"][n]["cls"])]
        # text inputs (server type, technology, resolution, model...) and time zones carry sources too
        text_slots = [(n, a) for n in sorted(S.spec_reachable(spec))
                      for a in list(S.META[spec["objs"][n]["cls"]]["choices"]) +
                      (["timezone"] if spec["objs"][n]["cls"] == "Country" else []) if a in spec["objs"][n]]
        for pick, src in case["sources"]:
            if text_slots and pick % 3 == 0:
                n, a = text_slots[(pick // 3) % len(text_slots)]
                spec["objs"][n][a + "@source"] = list(src)
                continue
            n, a = slots[pick % len(slots)]
            e = spec["objs"][n]
            val = e.get(a) or S.default_quantity(e["cls"], a)
            e[a] = [val[0], val[1], list(src)]
        case = dict(case, spec=spec)
        labels.append("custom_sources")
    summary = M.run_history(case, quiet, compare_fresh=False, check_totals=False, check_undo=False)
    if summary.get("live") is None:
        ctx.case(case, False, labels + ["history_" + summary["status"]])
        return
    objs, cur = summary["live"], summary["final_spec"]
    reach = S.reachable(objs)
    fail = lambda kind, detail, extra=None: ctx.violation(kind, case, detail, dict({"kind": kind,
                                                                                   "save_calc": case["save_calc"]},
                                                                                  **(extra or {})))
    classes = sorted({type(o).__name__ for o in reach.values()})
    has_builder = any(c in classes for c in ("GPUServer", "BoaviztaCloudServer", "VideoStreaming", "WebApplication",
                                             "GenAIModel"))
    sl = F.sharing_labels(cur)
    zones = {e["timezone"] for e in cur["objs"].values() if e["cls"] == "Country"}
    nontrivial = has_builder or bool(sl) or zones != {"Europe/Paris"}
    try:
        exported = system_to_json(objs["system"], save_calculated_attributes=case["save_calc"])
        text = json.dumps(exported)
    except Exception as ex:
        fail("export_error", "system_to_json raised %s: %s" % (type(ex).__name__, str(ex)[:300]),
             {"exc": type(ex).__name__})
        ctx.case(case, nontrivial, labels)
        return
    try:
        with M.watchdog():
            class_dict, flat = json_to_system(json.loads(text))
    except BaseException as ex:
        fail("load_error", "json_to_system raised %s: %s (classes in the system: %s)" % (
            type(ex).__name__, str(ex)[:300], classes), {"exc": type(ex).__name__,
                                                           "builder": "BoaviztaCloudServer" in classes})
        ctx.case(case, nontrivial, labels + ["load_error"])
        return
    loaded = by_name(flat, objs)
    problems = []
    # every reachable original object has a twin
    for n, o in reach.items():
        t = loaded.get(n)
        if t is None:
            problems.append(("object_lost", "%s (%s) is not in the loaded system" % (n, type(o).__name__)))
            continue
        if type(t).__name__ != type(o).__name__ or t.id != o.id or t.name != o.name:
            problems.append(("identity", "%s: class/id/name %s/%s/%s became %s/%s/%s" % (
                n, type(o).__name__, o.id, o.name, type(t).__name__, t.id, t.name)))
            continue
        a, b = describe_inputs(o), describe_inputs(t)
        for k in sorted(set(a) | set(b)):
            if k not in a or k not in b:
                problems.append(("attribute_lost", "%s.%s present on one side only" % (n, k)))
                continue
            ok, why = snap.close(a[k][0], b[k][0], rtol=1e-12)
            if not ok:
                problems.append(("input_value", "%s.%s: %s" % (n, k, why)))
            elif a[k][1] != b[k][1]:
                problems.append(("label", "%s.%s label %r became %r" % (n, k, a[k][1], b[k][1])))
            elif a[k][2] != b[k][2]:
                problems.append(("source", "%s.%s source %r became %r" % (n, k, a[k][2], b[k][2])))
    if not problems:
        extra = set(loaded) - set(reach)
        lreach = None
        try:
            lobjs = dict(loaded)
            lreach = S.reachable(lobjs)
        except Exception as ex:
            problems.append(("loaded_not_walkable", "%s: %s" % (type(ex).__name__, str(ex)[:200])))
        if lreach is not None:
            d = snap.compare(snap.snapshot(reach), snap.snapshot(lreach))
            if d:
                problems.append(("results", "%d calculated value(s) differ after reload; first %s %s" % (
                    len(d), d[0][0], d[0][1])))
    if not problems:
        try:
            again = system_to_json(loaded["system"], save_calculated_attributes=case["save_calc"])
            why = json_close(json.loads(json.dumps(exported)), json.loads(json.dumps(again)))
            if why:
                problems.append(("reexport", "exporting the loaded system gives another JSON: %s" % why))
        except Exception as ex:
            problems.append(("reexport", "re-export raised %s: %s" % (type(ex).__name__, str(ex)[:200])))
    if not problems:
        # liveness: the same edit on the loaded system and on a freshly built one
        e = case["edit_after_load"]
        fresh, exc = F.build_case({"spec": cur, "id_seed": case["id_seed"] + 11})
        def names_in(ed):
            out = [ed.get("obj"), ed.get("target"), ed.get("up")] + list(ed.get("targets", []))
            for x in ed.get("args", []):
                out += [y for y in (x if isinstance(x, list) else [x]) if isinstance(y, str)]
            for sub in ed.get("edits", []):
                out += names_in(sub)
            return [x for x in out if x]
        involved = names_in(e)
        if e["op"] == "add_up":
            involved = [x for x in involved if x != e["up"]]      # created by the edit itself
        if not all(x in lobjs for x in involved if x):
            labels.append("liveness_edit_on_unexported_object_skipped")
        elif fresh is not None:
            try:
                r1 = r2 = None
                try:
                    E.apply_live(fresh, e, cur)
                except Exception as ex:
                    r1 = ex
                try:
                    E.apply_live(lobjs, e, cur)
                except Exception as ex:
                    r2 = ex
                if (r1 is None) != (r2 is None):
                    problems.append(("liveness", "edit %s %s on a fresh system but %s on the loaded one (%s)" % (
                        E.describe(e), "raises" if r1 else "works", "raises" if r2 else "works", r1 or r2)))
                elif r1 is None:
                    d = snap.compare(snap.snapshot(S.reachable(fresh)), snap.snapshot(S.reachable(lobjs)))
                    if d:
                        problems.append(("liveness", "after edit %s the loaded system differs from a fresh one on %d "
                                                     "value(s); first %s %s" % (E.describe(e), len(d), d[0][0],
                                                                                d[0][1])))
                labels.append("liveness_checked")
            except KeyError:
                labels.append("liveness_edit_not_applicable")
    if not problems:
        # previous major version: Device used to be called Hardware
        old = json.loads(text)
        old["efootprint_version"] = "9.1.3"
        if "Device" in old:
            old["Hardware"] = old.pop("Device")
        try:
            cd, fl = json_to_system(old)
            lo = by_name(fl, objs)
            d = snap.compare(snap.snapshot(reach), snap.snapshot(S.reachable(dict(lo))))
            if d:
                problems.append(("version_upgrade", "a version 9 file loads to a different model: %s %s" % (
                    d[0][0], d[0][1])))
            labels.append("version9_checked")
        except Exception as ex:
            problems.append(("version_upgrade", "a version 9 file cannot be loaded: %s: %s" % (
                type(ex).__name__, str(ex)[:200])))
    if problems:
        k, detail = problems[0]
        fail("roundtrip_" + k, "%s (%d problem(s))" % (detail, len(problems)),
             {"attr": detail.split(":")[0].split(".")[-1][:40] if k in ("input_value", "label", "source") else ""})
    ctx.case(case, nontrivial, labels + (["builder"] if has_builder else []),
             sample={"classes": classes, "save_calc": case["save_calc"], "history": len(case["history"])})


def replay(case, ctx):
    check(case, ctx)


def run_shard(ctx):
    runner.run_given(ctx, cases(), lambda c: check(c, ctx), ctx.budget["examples"])
