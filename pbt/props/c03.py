"""C03 — Usage volumes are conserved from journey starts down to job load."""
import math
from fractions import Fraction

from hypothesis import strategies as st

from pbt.common import env, runner, snap, fresh as F, spec as S, gen as G, machine as M

env.import_efootprint()

ID = "C03"
TECHNIQUE = "property-based testing (Hypothesis) against a reference model of occurrence placement written with {timestamp: float} dicts, plus conservation totals"
LEVEL_TEXT = ("generated systems biased to hour-boundary step/request durations, repeated jobs, zeros and gaps; job "
              "occurrences, data volumes, occurrence-hours, journeys in parallel, device energy and server needs are "
              "recomputed hour by hour by a reference model from the UTC journey starts and compared")
LEVEL_NOTE = "takes utc_hourly_usage_journey_starts as given (the conversion itself is C11); trusts the harness' shift arithmetic"
RULE = ("In 30% of the cases the system is first edited (1-3 edits) and the reference model uses the final inputs. "
        "Hypothesis draws a system spec (step durations from {0,1 s,...,59/60/61 min,2 h,2.5 h}, request durations from "
        "{0.2 s ... 59 min,1 h,61 min,3 h}, jobs repeated within and across steps, series 1-48 h (10% up to 200) with "
        "zeros). Reference model: occurrences of a job in a pattern = sum over its appearances of the UTC starts shifted "
        "by floor(hours of preceding steps); data per hour = occurrences spread over ceil(request hours); average "
        "occurrences = full hours + fractional rest; journeys in parallel likewise from the journey duration; device "
        "energy = that x sum of device power x 1 h; *_across = sum of per-pattern entries; server need = sum over jobs. "
        "Compared hour by hour (rtol 1e-9) and as conservation totals. Non-trivial = some shift >= 1 h or a job with "
        "multiplicity >= 2 or request duration > 1 h; distinct by spec hash.")
ASSUMPTIONS = ["durations are expressed in s/min/h/day (exact conversions); ms-expressed hour multiples belong to C10",
               "small systems (<=5 jobs, <=3 usage patterns, <=200 hours)"]
BUDGET = {"quick": dict(examples=40, wall_guard_s=600), "thorough": dict(examples=700, wall_guard_s=3000)}
HOUR_NS = 3600 * 10 ** 9
UNIT_H = {"s": Fraction(1, 3600), "min": Fraction(1, 60), "hour": Fraction(1), "day": Fraction(24),
          "year": Fraction(24 * 36525, 100), "ms": Fraction(1, 3600000), "second": Fraction(1, 3600),
          "minute": Fraction(1, 60), "h": Fraction(1)}


def hours_of(val):
    """Exact duration in hours of a spec value [m, unit]."""
    return Fraction(val[0]).limit_denominator(10 ** 9) * UNIT_H[val[1]]


def shift(m, h):
    return {k + h * HOUR_NS: v for k, v in m.items()}


def avg_occurrences(starts, dur_h):
    """Reference of compute_nb_avg_hourly_occurrences: full hours plus fractional rest."""
    if not starts or dur_h == 0:
        return {}
    full = math.floor(dur_h)
    out = {}
    for h in range(full):
        F.add_into(out, shift(starts, h))
    rest = float(dur_h - full)
    if rest > 0:
        F.add_into(out, shift(starts, full), rest)
    return out


def job_request_hours(spec, objs, j):
    e = spec["objs"][j]
    if e["cls"] == "Job":
        return hours_of(e.get("request_duration") or S.default_quantity("Job", "request_duration")), True
    if e["cls"] == "VideoStreamingJob":
        return hours_of(e.get("video_duration") or S.default_quantity("VideoStreamingJob", "video_duration")), True
    sec = snap.canon(objs[j].request_duration)["m"]
    return Fraction(sec / 3600.0).limit_denominator(10 ** 12), False


@st.composite
def cases(draw):
    spec = draw(G.specs())
    hist = draw(G.histories(spec, min_steps=1, max_steps=3)) if draw(st.floats(0, 1)) < 0.3 else []
    return {"spec": spec, "id_seed": draw(st.integers(0, 2 ** 20)), "history": hist}


def check(case, ctx):
    spec = case["spec"]
    labels = ["sharing=" + spec.get("sharing", "?")]
    if case.get("history"):
        # conservation must also hold on a model reached through edits (same reference model, final inputs)
        quiet = type("Q", (), {"violation": lambda self, *a, **k: False})()
        summary = M.run_history(case, quiet, compare_fresh=False, check_totals=False, check_undo=False)
        objs = summary.get("live")
        if objs is None:
            ctx.case(case, False, labels + ["history_" + summary["status"]])
            return
        spec = summary["final_spec"]
        labels.append("after_history")
    else:
        objs, exc = F.build_case(case)
        if objs is None:
            ctx.case(case, False, labels + ["invalid_initial"])
            return
    comp = F.spec_components(spec)
    c = snap.canon
    problems = []
    nontrivial = False

    def cmp(what, got_c, exp_map, total_exp=None):
        if got_c is not None and "t" in got_c and len(got_c["t"]) > 1:
            import numpy as np
            if not np.all(np.diff(got_c["t"]) > 0):
                problems.append("%s: timestamps duplicated or not increasing" % what)
        why = F.maps_close(F.series(got_c), exp_map)
        if why:
            problems.append("%s differs from the reference model: %s" % (what, why))
        if total_exp is not None:
            got = snap.total(got_c)
            if abs(got - total_exp) > 1e-9 * max(abs(total_exp), abs(got)) + 1e-300:
                problems.append("%s: total %r, conservation requires %r" % (what, got, total_exp))

    per_job = {}     # job -> {up: dict of reference maps}
    for up in comp["ups"]:
        ue = spec["objs"][up]
        uj = ue["usage_journey"]
        starts_c = c(objs[up].utc_hourly_usage_journey_starts)
        starts = F.series(starts_c)
        tot_starts = sum(starts.values())
        steps = spec["objs"][uj]["uj_steps"]
        # delay before each step (exact hours)
        delays = []
        acc = Fraction(0)
        for s in steps:
            delays.append(acc)
            se = spec["objs"][s]
            acc += hours_of(se.get("user_time_spent") or S.default_quantity("UsageJourneyStep", "user_time_spent"))
        uj_hours = acc
        if any(d >= 1 for d in delays):
            nontrivial = True
        # journeys in parallel and device energy
        par = avg_occurrences(starts, uj_hours)
        cmp("%s.nb_usage_journeys_in_parallel" % up, c(objs[up].nb_usage_journeys_in_parallel), par,
            tot_starts * float(uj_hours))
        power = sum(F.attr_q(spec, d, "power") for d in ue["devices"])
        cmp("%s.devices_energy" % up, c(objs[up].devices_energy), {k: v * power * 3600.0 for k, v in par.items()},
            tot_starts * float(uj_hours) * power * 3600.0)
        for j in sorted(set(S.journey_jobs(spec, uj))):
            occ = {}
            mult = 0
            for s, d in zip(steps, delays):
                for sj in spec["objs"][s]["jobs"]:
                    if sj == j:
                        mult += 1
                        F.add_into(occ, shift(starts, math.floor(d)))
            if mult >= 2:
                nontrivial = True
            job = objs[j]

            def entry(attr):
                d_ = getattr(job, attr)
                for k, v in d_.items():
                    if S.key_of(k) == up:
                        return c(v)
                problems.append("%s.%s has no entry for usage pattern %s" % (j, attr, up))
                return None

            cmp("%s.hourly_occurrences_per_usage_pattern[%s]" % (j, up), entry("hourly_occurrences_per_usage_pattern"),
                occ, tot_starts * mult)
            req_h, exact = job_request_hours(spec, objs, j)
            if req_h > 1:
                nontrivial = True
            near_boundary = (not exact) and abs(float(req_h) - round(float(req_h))) < 1e-6
            tot_occ = tot_starts * mult
            ref = {"occ": occ}
            if not near_boundary:
                D = math.ceil(req_h)
                for attr, qattr in (("hourly_data_transferred_per_usage_pattern", "data_transferred"),
                                    ("hourly_data_stored_per_usage_pattern", "data_stored")):
                    amount = snap.canon(getattr(job, qattr))
                    amount = 0.0 if amount is None else amount["m"]
                    exp = {}
                    for h in range(D):
                        F.add_into(exp, shift(occ, h), amount / D)
                    cmp("%s.%s[%s]" % (j, attr, up), entry(attr), exp, tot_occ * amount)
                    ref[qattr] = exp
                avg = avg_occurrences(occ, req_h)
                cmp("%s.hourly_avg_occurrences_per_usage_pattern[%s]" % (j, up),
                    entry("hourly_avg_occurrences_per_usage_pattern"), avg, tot_occ * float(req_h))
                ref["avg"] = avg
            else:
                labels.append("request_duration_near_hour_boundary_skipped")
            per_job.setdefault(j, {})[up] = ref
    # across usage patterns = sum of per-pattern entries; jobs outside the system have nothing
    for j, refs in per_job.items():
        for attr, key in (("hourly_occurrences_across_usage_patterns", "occ"),
                          ("hourly_avg_occurrences_across_usage_patterns", "avg"),
                          ("hourly_data_transferred_across_usage_patterns", "data_transferred"),
                          ("hourly_data_stored_across_usage_patterns", "data_stored")):
            if all(key in r for r in refs.values()):
                exp = {}
                for r in refs.values():
                    F.add_into(exp, r[key])
                cmp("%s.%s" % (j, attr), c(getattr(objs[j], attr)), exp)
    # server needs
    for srv in comp["servers"]:
        for res, attr in (("ram_needed", "hour_by_hour_ram_need"), ("compute_needed", "hour_by_hour_compute_need")):
            exp = {}
            ok = True
            for j in F.jobs_of_server(spec, srv):
                if j not in per_job:
                    continue
                need = snap.canon(getattr(objs[j], res))
                need = 0.0 if need is None else need["m"]
                for r in per_job[j].values():
                    if "avg" not in r:
                        ok = False
                    else:
                        F.add_into(exp, r["avg"], need)
            if ok:
                cmp("%s.%s" % (srv, attr), c(getattr(objs[srv], attr)), exp)
    if problems:
        ctx.violation("not_conserved", case, "; ".join(problems[:4]),
                      {"kind": "not_conserved", "what": problems[0].split(" ")[0].split(".")[-1].split("[")[0]})
    ctx.case(case, nontrivial, labels + F.sharing_labels(spec),
             sample={"objects": {n: e["cls"] for n, e in spec["objs"].items()}, "system": spec["system"],
                     "steps": {n: e for n, e in spec["objs"].items() if e["cls"] == "UsageJourneyStep"}})


def replay(case, ctx):
    check(case, ctx)


def run_shard(ctx):
    runner.run_given(ctx, cases(), lambda c: check(c, ctx), ctx.budget["examples"])
