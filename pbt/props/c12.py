"""C12 — Footprints respond to each driver in the documented proportion."""
import copy

from hypothesis import strategies as st

from pbt.common import env, runner, snap, fresh as F, spec as S, gen as G, edits as E, machine as M

env.import_efootprint()

ID = "C12"
TECHNIQUE = "property-based testing (Hypothesis), metamorphic table: driver x k => listed footprints x k (or 1/k), all other calculated attributes unchanged"
LEVEL_TEXT = ("generated systems; one cost driver of one object multiplied by k; every calculated attribute of every object "
              "compared with the factor the documentation of the update functions implies (k, 1/k, 1, affine for shared "
              "objects), between fresh builds and when the driver is scaled by an edit of a live model (also after histories "
              "containing refused edits)")
LEVEL_NOTE = "the expectation table is written from the property text and the docstrings/labels of the update functions"
RULE = ("Hypothesis draws a system spec, a driver (server PUE / carbon intensity / fabrication / lifespan, storage "
        "fabrication per capacity / lifespan, network bandwidth intensity, country carbon intensity, device power / "
        "fabrication / lifespan / usage fraction, data transferred by all jobs, all traffic), an object of the relevant "
        "class and k in {0.1,0.5,2,3,7.3,10}. build(spec) and build(spec x k) are compared: driven attributes must be "
        "multiplied by exactly k (or 1/k), every other calculated attribute (except the system total) must be unchanged; "
        "where a driver enters additively (country of a shared network, one device among several) linearity in k is "
        "checked with a third build. In 35% of the cases the driver is also scaled by an edit of a live model (fresh or "
        "after 0-3 edits, a quarter of them built to be refused), one input at a time or in one grouped update next to "
        "0-3 re-submitted unchanged fields, and the same factors must hold between the values before and after. "
        "Non-trivial = the scaled object is shared or has a sibling that must stay unchanged.")
ASSUMPTIONS = ["ceil-based server types and storages are only required not to decrease when all traffic grows",
               "relative tolerance 1e-9"]
BUDGET = {"quick": dict(examples=30, wall_guard_s=600), "thorough": dict(examples=500, wall_guard_s=3000)}
KS = [0.1, 0.5, 2.0, 3.0, 7.3, 10.0]
DRIVERS = ["server_pue", "server_aci", "server_fab", "server_lifespan", "storage_fab", "storage_lifespan", "network_bei",
           "country_aci", "device_power", "device_fab", "device_lifespan", "device_fraction", "data_transferred",
           "traffic"]
UP_ENERGY = ["devices_energy_footprint", "energy_footprint"]
UP_FAB = ["devices_fabrication_footprint", "instances_fabrication_footprint"]
JOB_DATA = ["hourly_data_transferred_per_usage_pattern", "hourly_data_transferred_across_usage_patterns"]
JOB_ALL = ["hourly_occurrences_per_usage_pattern", "hourly_avg_occurrences_per_usage_pattern",
           "hourly_data_transferred_per_usage_pattern", "hourly_data_stored_per_usage_pattern",
           "hourly_occurrences_across_usage_patterns", "hourly_avg_occurrences_across_usage_patterns",
           "hourly_data_transferred_across_usage_patterns", "hourly_data_stored_across_usage_patterns"]


@st.composite
def cases(draw):
    spec = draw(G.specs())
    live = None
    if draw(st.floats(0, 1)) < 0.35:
        # the same relation on a live model: the driver is scaled by an edit (all at once or one input at a time),
        # possibly after a short history of other edits
        live = {"history": draw(G.histories(spec, min_steps=0, max_steps=3, refusals=0.25)),
                "grouped": draw(st.booleans()), "resubmitted": draw(st.integers(0, 3))}
    return {"spec": spec, "id_seed": draw(st.integers(0, 2 ** 20)), "driver": draw(st.sampled_from(DRIVERS)),
            "pick": draw(st.integers(0, 10 ** 6)), "k": draw(st.sampled_from(KS)), "live": live}


def scale_attr(spec, name, attr, k):
    e = spec["objs"][name]
    val = e.get(attr) or S.default_quantity(e["cls"], attr)
    e[attr] = [val[0] * k, val[1]]


def plan(spec, driver, pick, k):
    """Returns (scaled spec, expected {(name, attr): factor}, affine keys, unchecked keys, target, nontrivial)."""
    comp = F.spec_components(spec)
    sp = copy.deepcopy(spec)
    exp, affine, unchecked = {}, set(), {("system", "total_footprint")}
    target = None
    nontrivial = False

    def choose(pool):
        return pool[pick % len(pool)] if pool else None

    if driver in ("server_pue", "server_aci", "server_fab", "server_lifespan"):
        pool = comp["servers"] if driver in ("server_pue", "server_aci", "server_lifespan") else \
            [s for s in comp["servers"] if spec["objs"][s]["cls"] == "Server"]
        target = choose(pool)
        if target is None:
            return None
        stn = spec["objs"][target]["storage"]
        if driver == "server_pue":
            scale_attr(sp, target, "power_usage_effectiveness", k)
            for n in (target, stn):
                exp[(n, "instances_energy")] = k
                exp[(n, "energy_footprint")] = k
        elif driver == "server_aci":
            scale_attr(sp, target, "average_carbon_intensity", k)
            for n in (target, stn):
                exp[(n, "energy_footprint")] = k
        elif driver == "server_fab":
            scale_attr(sp, target, "carbon_footprint_fabrication", k)
            exp[(target, "instances_fabrication_footprint")] = k
        else:
            scale_attr(sp, target, "lifespan", k)
            exp[(target, "instances_fabrication_footprint")] = 1.0 / k
        nontrivial = len(comp["servers"]) > 1
    elif driver in ("storage_fab", "storage_lifespan"):
        target = choose(comp["storages"])
        if target is None:
            return None
        if driver == "storage_fab":
            scale_attr(sp, target, "carbon_footprint_fabrication_per_storage_capacity", k)
            exp[(target, "carbon_footprint_fabrication")] = k
            exp[(target, "instances_fabrication_footprint")] = k
        else:
            scale_attr(sp, target, "lifespan", k)
            exp[(target, "instances_fabrication_footprint")] = 1.0 / k
        nontrivial = len(comp["storages"]) > 1
    elif driver == "network_bei":
        target = choose(comp["networks"])
        scale_attr(sp, target, "bandwidth_energy_intensity", k)
        exp[(target, "energy_footprint")] = k
        nontrivial = len(comp["networks"]) > 1
    elif driver == "country_aci":
        countries = sorted({spec["objs"][u_]["country"] for u_ in comp["ups"]})
        target = choose(countries)
        scale_attr(sp, target, "average_carbon_intensity", k)
        for u_ in comp["ups"]:
            if spec["objs"][u_]["country"] == target:
                for a in UP_ENERGY:
                    exp[(u_, a)] = k
        for net in comp["networks"]:
            ups = [u_ for u_ in comp["ups"] if spec["objs"][u_]["network"] == net]
            inside = [u_ for u_ in ups if spec["objs"][u_]["country"] == target]
            if inside and len(inside) == len(ups):
                exp[(net, "energy_footprint")] = k
            elif inside:
                affine.add((net, "energy_footprint"))
        nontrivial = len(countries) > 1
    elif driver.startswith("device_"):
        devices = sorted({d for u_ in comp["ups"] for d in spec["objs"][u_]["devices"]})
        target = choose(devices)
        attr = {"device_power": "power", "device_fab": "carbon_footprint_fabrication", "device_lifespan": "lifespan",
                "device_fraction": "fraction_of_usage_time"}[driver]
        scale_attr(sp, target, attr, k)
        f = k if driver in ("device_power", "device_fab") else 1.0 / k
        attrs = (["devices_energy"] + UP_ENERGY) if driver == "device_power" else UP_FAB
        for u_ in comp["ups"]:
            devs = spec["objs"][u_]["devices"]
            if target in devs:
                for a in attrs:
                    if set(devs) == {target}:
                        exp[(u_, a)] = f
                    elif driver in ("device_power", "device_fab"):
                        affine.add((u_, a))
                    else:
                        unchecked.add((u_, a))
        nontrivial = len(devices) > 1 or len(comp["ups"]) > 1
    elif driver == "data_transferred":
        if not comp["jobs"] or any(spec["objs"][j]["cls"] not in ("Job", "WebApplicationJob") for j in comp["jobs"]):
            return None
        # every job of the spec (used or not) transfers k times more
        for j, e in spec["objs"].items():
            if e["cls"] in ("Job", "WebApplicationJob"):
                scale_attr(sp, j, "data_transferred", k)
                for a in JOB_DATA:
                    exp[(j, a)] = k
        for net in comp["networks"]:
            exp[(net, "energy_footprint")] = k
        target = "all jobs"
        nontrivial = len(comp["jobs"]) > 1
    elif driver == "traffic":
        for u_ in comp["ups"]:
            sp["objs"][u_]["starts"] = [v * k for v in sp["objs"][u_]["starts"]]
            for a in ["utc_hourly_usage_journey_starts", "nb_usage_journeys_in_parallel", "devices_energy"] + \
                    UP_ENERGY + UP_FAB:
                exp[(u_, a)] = k
        for j in comp["jobs"]:
            for a in JOB_ALL:
                exp[(j, a)] = k
        for net in comp["networks"]:
            exp[(net, "energy_footprint")] = k
        for s in comp["servers"]:
            e = spec["objs"][s]
            st_type = e.get("server_type") or ("serverless" if e["cls"] == "GPUServer" else "autoscaling")
            exp[(s, "hour_by_hour_ram_need")] = k
            exp[(s, "hour_by_hour_compute_need")] = k
            exp[(s, "raw_nb_of_instances")] = k
            for a in ("nb_of_instances", "instances_fabrication_footprint", "instances_energy", "energy_footprint"):
                if st_type == "serverless":
                    exp[(s, a)] = k
                else:
                    unchecked.add((s, a))
                    if k > 1:
                        affine.discard((s, a))
            stn = e["storage"]
            exp[(stn, "storage_delta")] = k
            for a in ("full_cumulative_storage_need", "raw_nb_of_instances", "nb_of_instances",
                      "nb_of_active_instances", "instances_fabrication_footprint", "instances_energy",
                      "energy_footprint"):
                unchecked.add((stn, a))
        target = "all usage patterns"
        nontrivial = True
    return sp, exp, affine, unchecked, target, nontrivial


def scaled(c, f):
    if c is None:
        return None
    if isinstance(c, dict) and "__dict__" in c:
        return {"__dict__": {k: scaled(v, f) for k, v in c["__dict__"].items()}}
    if "v" in c:
        return dict(c, v=c["v"] * f)
    if "m" in c:
        return dict(c, m=c["m"] * f)
    return c


def check(case, ctx):
    spec, driver, k = case["spec"], case["driver"], case["k"]
    labels = ["driver=" + driver]
    p = plan(spec, driver, case["pick"], k)
    if p is None:
        ctx.case(case, False, labels + ["driver_not_applicable"])
        return
    sp, exp, affine, unchecked, target, nontrivial = p
    a_objs, ea = F.build_case({"spec": spec, "id_seed": case["id_seed"]})
    b_objs, eb = F.build_case({"spec": sp, "id_seed": case["id_seed"]})
    if a_objs is None or b_objs is None:
        ctx.case(case, False, labels + ["invalid_initial" if a_objs is None else "invalid_scaled"])
        return
    sa = snap.snapshot(S.reachable(a_objs))
    sb = snap.snapshot(S.reachable(b_objs))
    problems = []
    for key in sorted(set(sa) | set(sb)):
        if key in unchecked or key in affine:
            continue
        if key not in sa or key not in sb:
            problems.append("%s present on one side only" % (key,))
            continue
        f = exp.get(key, 1.0)
        ok, why = snap.close(scaled(sa[key], f), sb[key], rtol=1e-9)
        if not ok:
            problems.append("%s.%s should be multiplied by %g when %s of %s is multiplied by %g: %s" % (
                key[0], key[1], f, driver, target, k, why))
    if affine:
        k2 = 2 * k - 1 if 2 * k - 1 > 0 else 3 * k
        p2 = plan(spec, driver, case["pick"], k2)
        c_objs, ec = F.build_case({"spec": p2[0], "id_seed": case["id_seed"]})
        if c_objs is not None:
            sc = snap.snapshot(S.reachable(c_objs))
            for key in sorted(affine):
                if key not in sa:
                    continue
                t1, tk, tk2 = snap.total(sa[key]), snap.total(sb[key]), snap.total(sc[key])
                lhs = (tk2 - t1) * (k - 1)
                rhs = (tk - t1) * (k2 - 1)
                if abs(lhs - rhs) > 1e-9 * max(abs(t1), abs(tk), abs(tk2)) * max(abs(k - 1), abs(k2 - 1)):
                    problems.append("%s.%s is not affine in %s of %s: totals %r, %r, %r at k=1, %g, %g" % (
                        key[0], key[1], driver, target, t1, tk, tk2, k, k2))
            labels.append("affine_checked")
    if driver == "traffic" and k > 1:
        for key in unchecked:
            if key[1] in ("nb_of_instances",) and key in sa and key in sb and \
                    spec["objs"].get(key[0], {}).get("cls") in S.SERVER_CLS:
                if snap.total(sb[key]) < snap.total(sa[key]) - 1e-9:
                    problems.append("%s.%s decreases when all traffic is multiplied by %g" % (key[0], key[1], k))
    if problems:
        ctx.violation("wrong_proportion", case, "; ".join(problems[:3]),
                      {"kind": "wrong_proportion", "driver": driver, "attr": problems[0].split(" ")[0]
                       .split(".")[-1]})
    elif case.get("live"):
        live_response(case, ctx, labels)
    ctx.case(case, nontrivial, labels, sample={"driver": driver, "target": target, "k": k})


def spec_diff_edits(a, b):
    """The input edits that lead from spec a to spec b (quantities and hourly series only)."""
    out = []
    for n in sorted(b["objs"]):
        ea, eb = a["objs"][n], b["objs"][n]
        if ea.get("starts") != eb.get("starts") or ea.get("start") != eb.get("start"):
            out.append(dict(op="hourly", obj=n, start=list(eb["start"]), starts=list(eb["starts"])))
        for attr in sorted(eb):
            if attr in ("starts", "start", "cls", "name"):
                continue
            if ea.get(attr) != eb[attr]:
                out.append(dict(op="q", obj=n, attr=attr, val=list(eb[attr])))
    return out


class _Quiet:
    def violation(self, *a, **k):
        return False


def live_response(case, ctx, labels):
    """The driver scaled by an edit of a live model (after a short history): same factors as between fresh builds."""
    lv, driver, k = case["live"], case["driver"], case["k"]
    summary = M.run_history({"spec": case["spec"], "id_seed": case["id_seed"] + 7, "history": lv["history"]},
                            _Quiet(), compare_fresh=False, check_totals=False, check_undo=False)
    if summary.get("live") is None or summary["status"] != "ok":
        labels.append("live_history_" + summary["status"])
        return
    objs, sf = summary["live"], summary["final_spec"]
    p = plan(sf, driver, case["pick"], k)
    if p is None:
        labels.append("live_driver_not_applicable")
        return
    sp, exp, affine, unchecked, target, _ = p
    edits = spec_diff_edits(sf, sp)
    if not edits:
        labels.append("live_nothing_to_scale")
        return
    fresh, exc = F.build_case({"spec": sp, "id_seed": case["id_seed"] + 8})
    if fresh is None:
        labels.append("live_scaled_invalid")
        return
    if lv["grouped"] and lv.get("resubmitted"):
        # a client that re-submits unchanged fields of the edited objects together with the changed one
        same = [dict(op="q", obj=e_["obj"], attr=a_, val=list(v_)) for e_ in edits
                for a_, v_ in sorted(sf["objs"][e_["obj"]].items())
                if a_ in S.quantity_inputs(sf["objs"][e_["obj"]]["cls"]) and a_ != e_.get("attr")
                and a_ != "fixed_nb_of_instances" and isinstance(v_, list)]
        uniq = []
        for e_ in same:
            if not any(x["obj"] == e_["obj"] and x["attr"] == e_["attr"] for x in uniq + edits):
                uniq.append(e_)
        edits = uniq[:lv["resubmitted"]] + edits
        labels.append("live_resubmitted_unchanged=%d" % min(lv["resubmitted"], len(uniq)))
    before = snap.snapshot(S.reachable(objs))
    try:
        with M.watchdog():
            if lv["grouped"] and len(edits) > 1:
                E.apply_live(objs, dict(op="group", edits=edits), sf)
            else:
                cur = sf
                for e in edits:
                    E.apply_live(objs, e, cur)
                    cur = E.apply_spec(cur, e)
    except Exception as ex:
        labels.append("live_edit_refused")     # acceptance of valid edits is C01's subject
        return
    labels.append("live_scaled" + ("_after_history" if lv["history"] else "") +
                  ("_refusal_in_history" if summary.get("refused") else ""))
    after = snap.snapshot(S.reachable(objs))
    problems = []
    for key in sorted(set(before) | set(after)):
        if key in unchecked or key in affine:
            continue
        if key not in before or key not in after:
            problems.append("%s present on one side only" % (key,))
            continue
        f = exp.get(key, 1.0)
        ok, why = snap.close(scaled(before[key], f), after[key], rtol=1e-9)
        if not ok:
            problems.append("%s.%s should be multiplied by %g when %s of %s is multiplied by %g on the live model%s: "
                            "%s" % (key[0], key[1], f, driver, target, k,
                                    " (after %d edit(s))" % len(lv["history"]) if lv["history"] else "", why))
    if problems:
        ctx.violation("wrong_proportion", case, "; ".join(problems[:3]),
                      {"kind": "wrong_proportion", "driver": driver, "site": "live",
                       "attr": problems[0].split(" ")[0].split(".")[-1]})


def replay(case, ctx):
    check(case, ctx)


def run_shard(ctx):
    runner.run_given(ctx, cases(), lambda c: check(c, ctx), ctx.budget["examples"])
