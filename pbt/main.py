"""CLI: python -m pbt.main <ID> [--tier quick|thorough] [--replay FILE]   (exit 0 held / 1 violation / 2 harness error)"""
import argparse
import importlib
import os
import sys
import traceback


def main():
    ap = argparse.ArgumentParser()
    ap.add_argument("prop")
    ap.add_argument("--tier", default=os.environ.get("VERIF_TIER", "quick"), choices=["quick", "thorough"])
    ap.add_argument("--replay", default=None)
    a = ap.parse_args()
    import faulthandler, signal
    faulthandler.register(signal.SIGUSR1, all_threads=True)
    try:
        from pbt.common import env, runner
        env.import_efootprint()
        pid = a.prop.upper()
        mod = importlib.import_module("pbt.props.%s" % pid.lower())
        rc = runner.main_check(mod, a.tier, a.replay)
    except SystemExit:
        raise
    except BaseException:
        sys.stderr.write("HARNESS ERROR:\n" + traceback.format_exc())
        rc = 2
    sys.stdout.flush()
    sys.exit(rc)


if __name__ == "__main__":
    main()
